#!/bin/sh
# Run once after a fresh restore, offline. Builds the replay binary (path deps on /repo) into
# /verif/.cache (ignored by git). Checks rebuild it incrementally from /repo's current tree.
set -e
cd "$(dirname "$0")"
mkdir -p .cache evidence/replay
cp /repo/Cargo.lock replay/Cargo.lock
(cd replay && RUSTUP_TOOLCHAIN=1.88.0 CARGO_NET_OFFLINE=true CARGO_TARGET_DIR=../.cache/replay-target cargo build --offline -q)
verus --version >/dev/null
echo setup ok
