"""Replay files and witness search.

Verus gives no counterexample. When a semantic obligation fails, the check looks for a concrete
failing input on the REAL code: a per-unit small-scope generator feeds inputs to the replay binary
(path dependencies on /repo, rebuilt from the current tree) and compares the outcome with an
executable reading of the unit's spec functions (python, below / in witness_<unit>.py).
If nothing is found the replay file still names the failed obligation and carries the verifier's
output, and the VIOLATION line ends with no-failing-input-found."""
import importlib
import json
import os
import re
import subprocess
import sys

VERIF = os.path.dirname(os.path.dirname(os.path.abspath(__file__)))
REPLAY_BIN = os.path.join(VERIF, '.cache', 'replay-target', 'debug', 'replay')


def build_replay():
    env = dict(os.environ)
    env['RUSTUP_TOOLCHAIN'] = '1.88.0'
    env['CARGO_TARGET_DIR'] = os.path.join(VERIF, '.cache', 'replay-target')
    env['CARGO_NET_OFFLINE'] = 'true'
    lock = os.path.join(VERIF, 'replay', 'Cargo.lock')
    repo = os.environ.get('RUMA_REPO', '/repo')
    if not os.path.exists(lock):
        import shutil
        shutil.copy(os.path.join(repo, 'Cargo.lock'), lock)
    p = subprocess.run(['cargo', 'build', '--offline', '-q'], cwd=os.path.join(VERIF, 'replay'), env=env,
                       capture_output=True, text=True, timeout=1800)
    if p.returncode != 0:
        return False, p.stderr[-3000:]
    # the second replay binary (dependencies at opt-level 0; used by the `deep` enumeration for stack use of recursive code)
    env['CARGO_TARGET_DIR'] = os.path.join(VERIF, '.cache', 'replay0-target')
    lock0 = os.path.join(VERIF, 'replay0', 'Cargo.lock')
    if not os.path.exists(lock0):
        import shutil
        shutil.copy(lock, lock0)
    p = subprocess.run(['cargo', 'build', '--offline', '-q'], cwd=os.path.join(VERIF, 'replay0'), env=env,
                       capture_output=True, text=True, timeout=1800)
    if p.returncode != 0:
        return False, p.stderr[-3000:]
    return True, ''


def run_batch(cases):
    """cases: list of [case, arg...] -> list of result dicts"""
    os.makedirs(os.path.join(VERIF, '.cache', 'run'), exist_ok=True)
    path = os.path.join(VERIF, '.cache', 'run', 'batch-%d.jsonl' % os.getpid())
    with open(path, 'w') as f:
        for c in cases:
            f.write(json.dumps(c) + '\n')
    p = subprocess.run([REPLAY_BIN, '--batch', path], capture_output=True, text=True, timeout=1800)
    out = []
    for ln in p.stdout.split('\n'):
        if ln.strip():
            out.append(json.loads(ln))
    os.unlink(path)
    if len(out) != len(cases):
        raise RuntimeError('replay batch returned %d results for %d cases: %s' % (len(out), len(cases), p.stderr[-500:]))
    return out


def make_replay(pid, obligation, summaries, conf, tier, seed):
    unit = obligation.split('::')[0]
    safe = re.sub(r'[^\w.\-]', '_', obligation)
    path = os.path.join(VERIF, 'evidence', 'replay', '%s-%s.json' % (pid, safe))
    rec = {
        'property': pid, 'obligation': obligation,
        'verifier_output': [{k: s.get(k) for k in ('message', 'subkind', 'origin', 'text', 'rendered', 'harness', 'counterexample') if s.get(k) is not None}
                            for s in summaries],
        'witness': None,
    }
    found = False
    try:
        mod = importlib.import_module('witness_' + unit)
    except ImportError:
        mod = None
        rec['witness_search'] = 'no witness generator for unit %s' % unit
    if mod is not None:
        ok, err = build_replay()
        if not ok:
            rec['witness_search'] = 'replay crate failed to build: ' + err
        else:
            try:
                w = mod.search(obligation, tier, seed, run_batch)
                if w:
                    rec['witness'] = w
                    rec['replay_cmd'] = '%s %s' % (REPLAY_BIN, ' '.join(json.dumps(a) for a in [w['case']] + w['args']))
                    found = True
                else:
                    rec['witness_search'] = 'generator exhausted without a disagreement'
            except Exception as e:  # a broken generator must not turn into an alarm or hide one
                rec['witness_search'] = 'generator error: %r' % (e,)
    # Kani counterexamples are concrete inputs already
    for s in summaries:
        if s.get('counterexample'):
            found = True
    json.dump(rec, open(path, 'w'), indent=1)
    return os.path.relpath(path, VERIF), found


def replay_file(path):
    rec = json.load(open(path))
    w = rec.get('witness')
    print('obligation: %s' % rec['obligation'])
    for v in rec.get('verifier_output', []):
        print('verifier: %s' % (v.get('message'),))
    if not w:
        print('no concrete input recorded (%s)' % rec.get('witness_search'))
        return 2
    ok, err = build_replay()
    if not ok:
        print('replay crate failed to build: ' + err)
        return 2
    res = run_batch([[w['case']] + w['args']])[0]
    print('input: %s %r' % (w['case'], w['args']))
    print('observed now: %s' % json.dumps(res))
    print('expected: %s' % w.get('expected'))
    unit = rec['obligation'].split('::')[0]
    mod = importlib.import_module('witness_' + unit)
    bad = mod.judge(w['case'], w['args'], res)
    if bad:
        print('STILL FAILING: ' + bad)
        return 1
    print('no longer failing')
    return 0
