#!/usr/bin/env python3
"""gen_seed_prompts.py <outdir>: writes one prompt file per property for the next round of seeded mutations
(<id>-m<next>.txt), listing the ideas already used (summaries of seeded/<id>/*/meta.json) so that the sub-agent looks elsewhere.
The sub-agents get only the property text and a scratch worktree; they never read /verif."""
import json, os, sys, glob
out = sys.argv[1]
os.makedirs(out, exist_ok=True)
props = [json.loads(l) for l in open('/verif/properties.jsonl')]
T = open('/verif/tools/seed_prompt_template.txt').read()
for p in props:
    pid = p['id']
    ms = sorted(glob.glob('/verif/seeded/%s/m*/meta.json' % pid))
    nums = [int(os.path.basename(os.path.dirname(m))[1:]) for m in ms]
    nxt = max(nums + [0]) + 1
    used = []
    for m in ms:
        s = json.load(open(m)).get('summary', '')
        used.append('   - ' + ' '.join(s.split())[:260])
    name = '%s-m%d' % (pid, nxt)
    txt = (T.replace('{NAME}', name).replace('{ID}', pid).replace('{M}', 'm%d' % nxt).replace('{TITLE}', p['title'])
           .replace('{STATEMENT}', p['statement']).replace('{QUANT}', p['quantifier']['text'])
           .replace('{ANCHORS}', json.dumps(p['anchors'].get('mechanism', p['anchors'].get('files')))).replace('{USED}', '\n'.join(used)))
    open(os.path.join(out, name + '.txt'), 'w').write(txt)
    print(name, len(used), 'used ideas')
