"""Executable reading of units/idv.vrs spec functions + small-scope generator for unit idv."""
import ipaddress
import itertools
import random
import re


def expand(s):
    def rep(m):
        return m.group(2) * int(m.group(1))
    return re.sub(r'@rep:(\d+):(.)', rep, s, flags=re.S)


def is_host_char(b):
    return chr(b).isascii() and (chr(b).isalnum() or b in (45, 46))


def ipv6_ok(bs):
    try:
        t = bs.decode('ascii')
    except Exception:
        return False
    if '%' in t or '/' in t:
        return False
    try:
        ipaddress.IPv6Address(t)
        return True
    except Exception:
        return False


def valid_port(p):
    return 1 <= len(p) <= 5 and all(48 <= c <= 57 for c in p)


def server_name_at(s, h, u16):
    if not (0 < h <= len(s)):
        return False
    if s[0] == 91:
        if not (h >= 2 and s[h - 1] == 93 and 93 not in s[:h - 1] and ipv6_ok(s[1:h - 1])):
            return False
    else:
        if not ((h == len(s) or s[h] == 58) and all(is_host_char(c) for c in s[:h])):
            return False
    if h == len(s):
        return True
    if s[h] != 58 or not valid_port(s[h + 1:]):
        return False
    return (not u16) or int(s[h + 1:]) <= 65535


def valid_server_name(s, u16=False):
    return any(server_name_at(s, h, u16) for h in range(1, len(s) + 1))


def first(s, c):
    i = s.find(bytes([c]))
    return i if i >= 0 else None


def delimited(s, sigil, u16):
    c = first(s, 58)
    return 0 < len(s) <= 255 and s[0] == sigil and c is not None and valid_server_name(s[c + 1:], u16)


def localpart_ok(l):
    return 58 not in l and 0 not in l


MEDIA = set(b'0123456789abcdefghijklmnopqrstuvwxyzABCDEFGHIJKLMNOPQRSTUVWXYZ-_')
STRICT = set(b'0123456789abcdefghijklmnopqrstuvwxyz-.=_/+')


def judge(case, args, res):
    """returns a description of the violation, or None if the observed outcome agrees with the spec"""
    s = expand(args[0]).encode('utf-8')
    out = res['outcome']
    if out == 'panic':
        return 'panic: ' + res.get('detail', '')[:200]
    ok = out == 'ok'
    if case == 'idv.server_name':
        if ok and not valid_server_name(s):
            return 'accepted but not a valid server name (host / port grammar)'
        if not ok and valid_server_name(s, True):
            return 'rejected although in the grammar'
    elif case in ('idv.user_id', 'idv.room_alias_id'):
        sig = 64 if case == 'idv.user_id' else 35
        c = first(s, 58)
        good = delimited(s, sig, False) and localpart_ok(s[1:c])
        good16 = delimited(s, sig, True) and localpart_ok(s[1:c])
        if ok and not good:
            return 'accepted but violates the identifier structure'
        if not ok and good16:
            return 'rejected although well-formed'
    elif case == 'idv.user_id_strict':
        c = first(s, 58)
        good = delimited(s, 64, False) and c > 1 and all(x in STRICT for x in s[1:c])
        if ok and not good:
            return 'accepted by validate_strict but not strictly conforming'
        if not ok and delimited(s, 64, True) and c > 1 and all(x in STRICT for x in s[1:c]):
            return 'rejected although strictly conforming'
    elif case == 'idv.event_id':
        good = 0 < len(s) <= 255 and s[0] == 36 and (58 not in s or delimited(s, 36, False))
        good16 = 0 < len(s) <= 255 and s[0] == 36 and (58 not in s or delimited(s, 36, True))
        if ok and not good:
            return 'accepted but violates the event id structure / length limit'
        if not ok and good16:
            return 'rejected although well-formed'
    elif case == 'idv.room_id':
        good = 0 < len(s) <= 255 and s[0] == 33 and 0 not in s
        if ok != good:
            return 'room id decision differs from spec'
    elif case == 'idv.room_id_or_alias_id':
        c = first(s, 58)
        good = 0 < len(s) <= 255 and ((s[0] == 33 and 0 not in s) or (delimited(s, 35, False) and localpart_ok(s[1:c])))
        if ok and not good:
            return 'accepted but neither a room id nor a room alias'
    elif case == 'idv.mxc_uri':
        if ok:
            i = int(res['detail'])
            good = s.startswith(b'mxc://') and 6 <= i < len(s) and s[i] == 47 and 47 not in s[6:i] \
                and valid_server_name(s[6:i]) and all(x in MEDIA for x in s[i + 1:])
            if not good:
                return 'accepted with slash index %d that does not describe the URI' % i
        else:
            if s.startswith(b'mxc://'):
                i = s.find(b'/', 6)
                if 6 <= i <= 255 and valid_server_name(s[6:i], True) and all(x in MEDIA for x in s[i + 1:]):
                    return 'rejected although well-formed'
    elif case == 'idv.key_id':
        if ok:
            i = int(res['detail'])
            if not (0 < i < len(s) and s[i] == 58 and 58 not in s[:i]):
                return 'accepted with colon index %d that is not the first colon' % i
    elif case == 'ids.mxc_parts':
        if ok:
            i = s.find(b'/', 6)
            want = '("%s", "%s")' % (s[6:i].decode(), s[i + 1:].decode())
            if res['detail'] != want:
                return 'parts() does not recompose: %s vs %s' % (res['detail'][:80], want[:80])
    return None


HOSTS = ['[::1]é', '[::1]é1', ']', 'a::1]', 'é::1]', '[é]', '', 'a', 'a.b', 'A-1.x', '1.2.3.4', '[::1]', '[1:2::3]', '[', '[]', ']', 'a]', '[::1', '[::1]]', '[::1]x', 'é', 'a b', 'a_b', '.', '-',
         '@rep:248:a', '@rep:249:a', '@rep:250:a', '@rep:251:a', '@rep:255:a', '@rep:256:a', '@rep:506:a', '@rep:124:é', '@rep:125:é']
PORTS = ['', ':', ':0', ':80', ':+80', ':-80', ':000080', ':00080', ':65535', ':65536', ':99999', ':123456', ':8a', ': 80', ':80:', ':٣', '::80']
LOCALS = ['', 'a', 'A', 'a.b=_-/+', 'a b', 'a\x00b', 'é', '~', '@rep:240:a', '@rep:250:a']


def candidates(case, tier, seed):
    rnd = random.Random(seed)
    names = [h + p for h in HOSTS for p in PORTS]
    if case == 'idv.server_name':
        c = list(names)
    elif case in ('idv.user_id', 'idv.user_id_strict', 'idv.room_alias_id', 'idv.event_id', 'idv.room_id', 'idv.room_id_or_alias_id'):
        sig = {'idv.user_id': '@', 'idv.user_id_strict': '@', 'idv.room_alias_id': '#', 'idv.event_id': '$', 'idv.room_id': '!',
               'idv.room_id_or_alias_id': '#'}[case]
        c = []
        for sg in (sig, '', '!', '#', '$', '@'):
            for l in LOCALS:
                for n in names[::3] + ['a', 'a:80', '[::1]:80']:
                    c.append(sg + l + ':' + n)
                c.append(sg + l)
        c += [sig + '@rep:%d:a' % n for n in (253, 254, 255, 256, 300)]
        c += [sig + 'a:' + '@rep:%d:b' % n for n in (250, 251, 252, 253, 254, 300)]
    elif case in ('idv.mxc_uri', 'ids.mxc_parts'):
        c = []
        for pre in ('mxc://', 'mxc:/', '', 'MXC://', 'mxc://x', 'mxc:///'):
            for n in names:
                for m in ('', '/', '/a', '/aZ09-_', '/a/b', '/é', '/a b'):
                    c.append(pre + n + m)
    elif case in ('idv.key_id', 'ids.key_id_parts'):
        c = []
        for a in ['', 'ed25519', 'a', 'é', '@rep:254:a', '@rep:255:a', '@rep:256:a', '@rep:257:a', '@rep:258:a', '@rep:512:a', '@rep:127:é',
                  '@rep:128:é', '@rep:129:é', '@rep:130:é', 'a@rep:128:é']:
            for k in ['', 'x', 'ABC', 'a:b', 'é', '@rep:300:k']:
                c.append(a + ':' + k)
            c.append(a)
    else:
        c = []
    if tier == 'thorough':
        alphabet = 'a1.-:[]+@!#$/ é\x00'
        for _ in range(20000):
            c.append(''.join(rnd.choice(alphabet) for _ in range(rnd.randint(0, 12))))
    return c


CASES_FOR = {
    'server_name': ['idv.server_name'],
    'parse_id': ['idv.user_id', 'idv.room_alias_id'],
    'validate_id': ['idv.room_id', 'idv.event_id'],
    'validate_delimited_id': ['idv.event_id'],
    'localpart_is_backwards_compatible': ['idv.user_id', 'idv.room_alias_id'],
    'mxc_uri': ['idv.mxc_uri', 'ids.mxc_parts'],
    'key_id': ['idv.key_id', 'ids.key_id_parts'],
    'user_id': ['idv.user_id', 'idv.user_id_strict'],
    'room_alias_id': ['idv.room_alias_id'],
    'room_id': ['idv.room_id'],
    'room_id_or_alias_id': ['idv.room_id_or_alias_id'],
    'event_id': ['idv.event_id'],
}


def search(obligation, tier, seed, run_batch):
    parts = obligation.split('::')
    key = parts[1]
    cases = CASES_FOR.get(key, [])
    if key == '*':
        cases = sorted(set(c for v in CASES_FOR.values() for c in v))
    # a failure in server_name::validate shows through every identifier that embeds a server name
    if key == 'server_name':
        cases = cases + ['idv.user_id', 'idv.mxc_uri']
    for case in cases:
        cand = candidates(case, tier, seed)
        res = run_batch([[case, x] for x in cand])
        for x, r in zip(cand, res):
            why = judge(case, [x], r)
            if why:
                return {'case': case, 'args': [x], 'observed': r, 'expected': why}
    return None
