#!/usr/bin/env python3
"""Splices seeded/RESULTS.tsv (written by tools/seed_matrix.sh) as a table into DESIGN.md between the SEED-TABLE markers."""
import json, os, re
V = os.path.dirname(os.path.dirname(os.path.abspath(__file__)))
rows = []
for l in open(os.path.join(V, 'seeded', 'RESULTS.tsv')):
    p = l.rstrip('\n').split('\t')
    if len(p) < 3:
        continue
    pid, m, rc = p[0], p[1], p[2]
    what = p[3] if len(p) > 3 else ''
    try:
        meta = json.load(open(os.path.join(V, 'seeded', pid, m, 'meta.json')))
        summ = meta.get('summary', '')
    except Exception:
        summ = ''
    summ = re.sub(r'\s+', ' ', summ)[:170].replace('|', '\\|')
    obs = [o.split('::', 1)[1] if '::' in o else o for o in what.split() if '::' in o][:3]
    verdict = {'rc=1': 'detected', 'rc=0': 'missed', 'rc=2': 'undecided'}.get(rc, rc)
    if pid in ('C06', 'C14', 'C15', 'C18'):
        verdict = 'not claimed'
    rows.append('| %s/%s | %s | %s | %s |' % (pid, m, summ, verdict, '<br>'.join('`%s`' % o for o in obs)))
tab = '| seed | change (summary from the seeding agent) | verdict | failing obligation(s) |\n|---|---|---|---|\n' + '\n'.join(rows)
p = os.path.join(V, 'DESIGN.md')
s = open(p).read()
a = s.index('<!-- SEED-TABLE-BEGIN -->') + len('<!-- SEED-TABLE-BEGIN -->')
b = s.index('<!-- SEED-TABLE-END -->')
open(p, 'w').write(s[:a] + '\n' + tab + '\n' + s[b:])
print('%d seeds' % len(rows))
