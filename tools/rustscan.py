"""Minimal lexical scanner for Rust source: enough to find items and match
braces without being fooled by strings, chars, lifetimes and comments.
No regex is ever applied to un-masked text when matching delimiters."""
import re

CODE, COMMENT, STRING = 0, 1, 2


def mask(src):
    """Return a bytearray m with m[i] in {CODE, COMMENT, STRING} for every char."""
    n = len(src)
    m = bytearray(n)
    i = 0
    while i < n:
        c = src[i]
        if c == '/' and i + 1 < n and src[i + 1] == '/':
            j = src.find('\n', i)
            if j < 0:
                j = n
            for k in range(i, j):
                m[k] = COMMENT
            i = j
        elif c == '/' and i + 1 < n and src[i + 1] == '*':
            depth = 1
            j = i + 2
            while j < n and depth:
                if src.startswith('/*', j):
                    depth += 1
                    j += 2
                elif src.startswith('*/', j):
                    depth -= 1
                    j += 2
                else:
                    j += 1
            for k in range(i, j):
                m[k] = COMMENT
            i = j
        elif c == '"' or (c in 'br' and _is_str_start(src, i)):
            j = _str_end(src, i)
            for k in range(i, j):
                m[k] = STRING
            i = j
        elif c == "'":
            # char literal or lifetime
            if i + 1 < n and src[i + 1] == '\\':
                j = src.find("'", i + 2)
                # handle '\''
                if src[i + 2] == "'":
                    j = src.find("'", i + 3)
                for k in range(i, j + 1):
                    m[k] = STRING
                i = j + 1
            elif i + 2 < n and src[i + 2] == "'":
                for k in range(i, i + 3):
                    m[k] = STRING
                i += 3
            else:
                i += 1  # lifetime
        else:
            i += 1
    return m


def _is_str_start(src, i):
    # b"..", r"..", r#"..", br".." , b'x'
    if i > 0 and (src[i - 1].isalnum() or src[i - 1] == '_'):
        return False
    mm = re.match(r'(b?r#*"|b")', src[i:i + 12])
    return bool(mm)


def _str_end(src, i):
    mm = re.match(r'(b?r(#*)"|b?")', src[i:i + 12])
    pre = mm.group(0)
    if 'r' in pre:
        hashes = mm.group(2) or ''
        end = src.find('"' + hashes, i + len(pre))
        return end + 1 + len(hashes)
    j = i + len(pre)
    while j < len(src):
        if src[j] == '\\':
            j += 2
        elif src[j] == '"':
            return j + 1
        else:
            j += 1
    return len(src)


OPEN = {'(': ')', '[': ']', '{': '}'}
CLOSE = {')', ']', '}'}


def match_close(src, m, i):
    """src[i] is an opening delimiter at a CODE position; return index of its partner."""
    want = [OPEN[src[i]]]
    j = i + 1
    n = len(src)
    while j < n:
        if m[j] == CODE:
            c = src[j]
            if c in OPEN:
                want.append(OPEN[c])
            elif c in CLOSE:
                if c != want[-1]:
                    raise ValueError('unbalanced delimiter at %d' % j)
                want.pop()
                if not want:
                    return j
        j += 1
    raise ValueError('no closing delimiter for %d' % i)


def depth_at(src, m, lo, hi):
    """brace/paren/bracket depth (relative) for each position in [lo,hi) as list."""
    d = 0
    out = []
    for j in range(lo, hi):
        if m[j] == CODE:
            c = src[j]
            if c in CLOSE:
                d -= 1
        out.append(d)
        if m[j] == CODE and src[j] in OPEN:
            d += 1
    return out


def find_code(src, m, pat, lo, hi, want_depth=None, base_lo=None):
    """iterate regex matches whose first char is at a CODE position; optionally at given depth"""
    depths = None
    if want_depth is not None:
        b = lo if base_lo is None else base_lo
        depths = depth_at(src, m, b, hi)
    for mm in re.finditer(pat, src[lo:hi]):
        s = lo + mm.start()
        if m[s] != CODE:
            continue
        if depths is not None:
            b = lo if base_lo is None else base_lo
            if depths[s - b] != want_depth:
                continue
        yield s, lo + mm.end(), mm


def norm_ws(s):
    return re.sub(r'\s+', ' ', s).strip()


QUAL = r'(?:(?:pub(?:\s*\([^)]*\))?|const|async|unsafe|default|extern\s+"[^"]*")\s+)*'


class NotFound(Exception):
    pass


def find_item(src, m, seg, lo, hi):
    """Locate an item directly inside the region [lo,hi) (depth 0 relative to lo).
    seg is e.g. 'fn validate', 'impl Ord for TieBreaker<\'_, Id>', 'const V11',
    'enum Error', 'struct X', 'trait T', 'mod m', 'static S', 'type T', 'macro NAME'.
    Returns (start, end, body_open) -- text src[start:end]; body_open is the index
    of the '{' that opens the body or None."""
    seg = seg.strip()
    mk = re.match(r'(\w+)', seg)
    kind = mk.group(1)
    rest = seg[mk.end():].strip()
    if kind in ('fn', 'const', 'enum', 'struct', 'trait', 'mod', 'static', 'type', 'union'):
        pat = r'\b%s\s+%s\b' % (kind, re.escape(rest))
        cands = list(find_code(src, m, pat, lo, hi, want_depth=0))
        if kind == 'const':
            cands = [c for c in cands if not re.match(r'\s+fn\b', src[c[1]:c[1] + 6])]
    elif kind == 'impl':
        cands = []
        for s, e, mm in find_code(src, m, r'\bimpl\b', lo, hi, want_depth=0):
            # header runs to first '{' at code level
            j = s
            while j < hi and not (m[j] == CODE and src[j] == '{'):
                j += 1
            header = norm_ws(src[s + 4:j])
            want = norm_ws(rest)
            hs = _strip_generics(header)
            if header == want or hs == want or header.startswith(want + ' where') or hs.startswith(want + ' where'):
                cands.append((s, e, mm))
    else:
        raise NotFound('unknown item kind in %r' % seg)
    if not cands:
        raise NotFound('item %r not found' % seg)
    if len(cands) > 1:
        raise NotFound('item %r ambiguous (%d matches)' % (seg, len(cands)))
    s = cands[0][0]
    # extend start backwards over qualifiers on the same logical item
    back = src[lo:s]
    mm = re.search(QUAL + r'$', back)
    start = lo + mm.start() if mm else s
    # find end: first '{' or ';' at depth 0 (relative) after s
    j = s
    pd = 0
    body_open = None
    while j < hi:
        if m[j] == CODE:
            c = src[j]
            if c in '([':
                j = match_close(src, m, j)
            elif c == '{':
                body_open = j
                end = match_close(src, m, j) + 1
                # const X: T = Foo { .. };  -> continue to ';'
                if kind in ('const', 'static', 'type'):
                    j = end
                    continue
                return start, end, body_open
            elif c == ';':
                return start, j + 1, (body_open if kind not in ('const', 'static', 'type') else None)
        j += 1
    raise NotFound('item %r has no end' % seg)


def _strip_generics(header):
    # "impl<T> Foo<T> for Bar" header text starts after 'impl': '<T> Foo<T> for Bar'
    if header.startswith('<'):
        d = 0
        for i, c in enumerate(header):
            if c == '<':
                d += 1
            elif c == '>':
                d -= 1
                if d == 0:
                    return header[i + 1:].strip()
    return header


def locate(src, path):
    """path: list of segments. Returns (start, end, body_open, mask)."""
    m = mask(src)
    lo, hi = 0, len(src)
    res = None
    for k, seg in enumerate(path):
        s, e, bo = find_item(src, m, seg, lo, hi)
        res = (s, e, bo)
        if k + 1 < len(path):
            if bo is None:
                raise NotFound('segment %r has no body' % seg)
            lo, hi = bo + 1, match_close(src, m, bo)
    return res[0], res[1], res[2], m
