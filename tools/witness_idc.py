"""Executable reading of units/idc.vrs specs + small-scope generator (unit idc)."""
import itertools
import re


def expand(s):
    return re.sub(r'@rep:(\d+):(.)', lambda m: m.group(2) * int(m.group(1)), s, flags=re.S)


ALNUM = set('abcdefghijklmnopqrstuvwxyzABCDEFGHIJKLMNOPQRSTUVWXYZ0123456789')
SETS = {
    'idc.room_version_id': (ALNUM | set('.-'), lambda s: 1 <= len(s) <= 32),
    'idc.client_secret': (ALNUM | set('.=_-'), lambda s: 1 <= len(s) and len(s.encode()) <= 255),
    'idc.base64_public_key': (ALNUM | set('+/='), lambda s: 1 <= len(s)),
    'idc.server_signing_key_version': (ALNUM | set('_'), lambda s: 1 <= len(s)),
}
KEY = {'room_version_id': 'idc.room_version_id', 'client_secret': 'idc.client_secret', 'base64_public_key': 'idc.base64_public_key',
       'server_signing_key_version': 'idc.server_signing_key_version'}


def judge(case, s, res):
    if res['outcome'] == 'panic':
        return 'panic: ' + res.get('detail', '')[:200]
    allowed, lenok = SETS[case]
    good = lenok(s) and all(c in allowed for c in s)
    if (res['outcome'] == 'ok') != good:
        return 'accepted although outside the documented set / length' if not good else 'rejected although inside the documented set'
    return None


def candidates():
    alpha = ['a', 'Z', '0', '_', '.', '-', '=', '+', '/', ' ', 'é', '٣', '²', '中', ':', '\x00']
    out = ['']
    for n in (1, 2):
        out += [''.join(t) for t in itertools.product(alpha, repeat=n)]
    out += ['@rep:%d:a' % n for n in (31, 32, 33, 254, 255, 256)] + ['@rep:32:é', '@rep:127:éa', '@rep:128:é']
    return out


def search(obligation, tier, seed, run_batch):
    key = obligation.split('::')[1]
    cases = [KEY[key]] if key in KEY else sorted(SETS)
    cand = candidates()
    for case in cases:
        res = run_batch([[case, x] for x in cand])
        for x, r in zip(cand, res):
            why = judge(case, expand(x), r)
            if why:
                return {'case': case, 'args': [x], 'observed': r, 'expected': why}
    return None
