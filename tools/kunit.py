"""Kani unit runner: harnesses live in /verif/kani/<file>.rs and are include!d into the real crate
under cfg(kani) (hook in /repo). Every harness is labelled:

    //#ob:<obligation-label> [bounded=<text>] [tier=thorough]
    #[kani::proof]
    fn <group>_<name>() { .. }

A harness without `bounded=` is loop-free over full-domain symbolic inputs (or only has loops whose
trip count is a constant of the program and is fully unwound with unwinding assertions on):
a complete proof. `bounded=` harnesses are stand-ins and reported as such."""
import json
import os
import re
import subprocess
import time

VERIF = os.path.dirname(os.path.dirname(os.path.abspath(__file__)))
REPO = os.environ.get('RUMA_REPO', '/repo')


class Undecided(Exception):
    pass


def discover(path, prefix):
    src = open(path).read()
    out = []
    for mm in re.finditer(r'//#ob:(\S+)([^\n]*)\n((?:\s*#\[[^\n]*\]\s*\n)*)\s*(?:pub\s+)?fn\s+(\w+)', src):
        label, opts, attrs, fn = mm.group(1), mm.group(2), mm.group(3), mm.group(4)
        if not fn.startswith(prefix):
            continue
        if 'kani::proof' not in attrs:
            continue
        b = re.search(r'bounded=(\S+)', opts)
        t = re.search(r'tier=(\w+)', opts)
        out.append({'harness': fn, 'obligation': label, 'bounded': b.group(1) if b else None,
                    'tier': t.group(1) if t else 'quick'})
    return out


def run_group(name, uc, tier, outdir):
    path = os.path.join(VERIF, uc['file'])
    hs = discover(path, uc['prefix'])
    if not hs:
        raise Undecided('no harnesses found for group %s' % name)
    hs = [h for h in hs if tier == 'thorough' or h['tier'] == 'quick']
    hook = os.path.join(REPO, uc['hook_file'])
    if 'verif_kani' not in open(hook).read():
        raise Undecided('kani hook missing in %s' % uc['hook_file'])
    target = os.path.join(VERIF, '.cache', 'kani-target')
    cmd = ['cargo', 'kani', '-p', uc['package'], '--target-dir', target, '-Z', 'function-contracts', '-Z', 'stubbing',
           '--output-format', 'terse', '-j', str(uc.get('jobs', 8))]
    if uc.get('features'):
        cmd += ['--features', uc['features']]
    if uc.get('extra_args'):
        cmd += uc['extra_args']
    for h in hs:
        cmd += ['--harness', h['harness']]
    env = dict(os.environ)
    env['CARGO_NET_OFFLINE'] = 'true'
    env['RUMA_VERIF_DIR'] = VERIF
    env.pop('RUSTUP_TOOLCHAIN', None)
    env.pop('RUSTFLAGS', None)
    t0 = time.time()
    try:
        p = subprocess.run(cmd, cwd=REPO, env=env, capture_output=True, text=True, timeout=uc.get('timeout', 1800))
    except subprocess.TimeoutExpired:
        raise Undecided('cargo kani timed out for group %s' % name)
    wall = time.time() - t0
    out = p.stdout + '\n' + p.stderr
    os.makedirs(outdir, exist_ok=True)
    open(os.path.join(outdir, 'kani-%s.log' % name), 'w').write(out)
    if 'error: could not compile' in out or 'error[E' in out:
        raise Undecided('kani build failed for %s: %s' % (name, '\n'.join(l for l in out.split('\n') if 'error' in l)[:1500]))
    # parse: with -j output is per harness:  "Thread N: Checking harness X..." then result lines
    res = {}
    cur = None
    by_thread = {}
    solver_s = 0.0
    for ln in out.split('\n'):
        mm = re.search(r'(?:Thread (\d+): )?Checking harness ([\w:]+)', ln)
        if mm:
            cur = mm.group(2).split('::')[-1]
            if mm.group(1) is not None:
                by_thread[mm.group(1)] = cur
            res.setdefault(cur, {'status': 'UNKNOWN', 'failed_checks': [], 'time_s': None})
            continue
        mm = re.match(r'\s*Thread (\d+):\s*$', ln)
        if mm:
            cur = by_thread.get(mm.group(1))
            continue
        if cur is None:
            continue
        mm = re.search(r'Verification Time: ([\d.]+)s', ln)
        if mm:
            res[cur]['time_s'] = float(mm.group(1))
            solver_s += float(mm.group(1))
        mm = re.search(r'VERIFICATION:- (\w+)', ln)
        if mm:
            res[cur]['status'] = 'SUCCESS' if mm.group(1) == 'SUCCESSFUL' else 'FAILED'
        mm = re.search(r'Failed Checks: (.*)', ln)
        if mm:
            res[cur]['failed_checks'].append(mm.group(1).strip())
        mm = re.search(r'\*\* (\d+) of (\d+) failed', ln)
        if mm:
            res[cur]['checks'] = int(mm.group(2))
            res[cur]['checks_failed'] = int(mm.group(1))
    harnesses = []
    for h in hs:
        r = res.get(h['harness'])
        # with -j, kani prints a summary table instead; fall back to it
        if r is None or r['status'] == 'UNKNOWN':
            st = None
            mm = re.search(r'Verification failed for - ([\w:]*' + re.escape(h['harness']) + r')\b', out)
            if mm:
                st = 'FAILED'
            elif re.search(r'Complete - (\d+) successfully verified harnesses, 0 failures', out):
                st = 'SUCCESS'
            r = r or {'failed_checks': [], 'time_s': None}
            r['status'] = st or 'UNKNOWN(no result line; see log)'
        d = dict(h)
        d.update(r)
        harnesses.append(d)
    return {'harnesses': harnesses, 'wall_s': wall, 'solver_s': solver_s, 'cmd': 'RUMA_VERIF_DIR=/verif CARGO_NET_OFFLINE=true ' + ' '.join(cmd)}
