"""Unit generator for C19: string-valued protocol enums, proved on the COMPILER'S OWN EXPANSION of the
derive macros (StringEnum / AsRefStr / FromString / event-type enums).

On every run the crate is expanded from /repo's current tree with
  RUSTUP_TOOLCHAIN=nightly cargo rustc -p <crate> --lib -- -Zunpretty=expanded
and for every enum that has both an expanded `impl AsRef<str>` and `impl<T> From<T>` the two match
expressions are taken verbatim (declared normalizations N1-N4 below) into a Verus file, with
contracts generated from C19's statement:
  from:     every declared spelling maps to its variant; every other string is kept in `_Custom`
  as_ref:   every unit variant yields its spelling; `_Custom` yields the stored string
  roundtrip: as_ref(from(s)) == s for all s, except that a declared alias yields the canonical spelling
  idempotent: from(as_ref(from(s))) == from(s)
The literal-distinctness lemma is generated mechanically and verified (not trusted).

Normalizations (counted in the evidence):
  N1 path prefixes `::std::primitive::str`, `::std::convert::..`, `Self::` left as is / shortened
  N2 `&inner.0`  -> `inner.as_str()`        (PrivOwnedStr is an opaque string holder)
  N3 `s.as_ref()` -> `s` and `PrivOwnedStr(s.into())` -> `PrivOwnedStr::new(s)`  (generic T: AsRef<str> + Into<Box<str>> instantiated at &str)
  N4 `X::_Custom { 0: e }` -> `X::_Custom(e)`
"""
import os
import re
import subprocess
import sys

sys.path.insert(0, os.path.dirname(os.path.abspath(__file__)))
import rustscan as rs
import vunit

VERIF = vunit.VERIF
REPO = vunit.REPO


def expand(crate, features):
    out_dir = os.path.join(VERIF, '.cache', 'expanded')
    os.makedirs(out_dir, exist_ok=True)
    out = os.path.join(out_dir, crate.replace('-', '_') + '.rs')
    env = dict(os.environ)
    env['RUSTUP_TOOLCHAIN'] = 'nightly'
    env['CARGO_TARGET_DIR'] = os.path.join(VERIF, '.cache', 'expand-target')
    env['CARGO_NET_OFFLINE'] = 'true'
    cmd = ['cargo', 'rustc', '--offline', '-p', crate, '--lib']
    if features:
        cmd += ['--features', features]
    cmd += ['--', '-Zunpretty=expanded']
    p = subprocess.run(cmd, cwd=REPO, env=env, capture_output=True, text=True, timeout=3000)
    if p.returncode != 0 or len(p.stdout) < 1000:
        raise vunit.Undecided('macro expansion of %s failed: %s' % (crate, p.stderr[-800:]))
    open(out, 'w').write(p.stdout)
    return p.stdout, ' '.join(cmd)


ASREF_RE = re.compile(r'impl\s+::std::convert::AsRef<::std::primitive::str>\s+for\s+([\w:]+)\s*\{')
FROM_RE = re.compile(r'impl<T>\s+::std::convert::From<T>\s+for\s+([\w:]+)\s+where')


def _match_body(src, m, start):
    """find `match X {` after start; return (scrutinee, arms_text, end)"""
    mm = re.compile(r'\bmatch\s+([^{]+?)\s*\{').search(src, start)
    ob = mm.end() - 1
    cb = rs.match_close(src, m, ob)
    return mm.group(1).strip(), src[ob + 1:cb], cb


def _split_arms(arms):
    out = []
    m = rs.mask(arms)
    d = 0
    cur = 0
    i = 0
    while i < len(arms):
        if m[i] == rs.CODE:
            c = arms[i]
            if c in '([{':
                d += 1
            elif c in ')]}':
                d -= 1
                if c == '}' and d == 0:
                    seg = arms[cur:i + 1]
                    if '=>' in seg and re.search(r'=>\s*\{', seg) and seg.split('=>', 1)[1].strip().startswith('{'):
                        # block-bodied arm without trailing comma
                        nxt = arms[i + 1:].lstrip()
                        if not nxt.startswith(','):
                            out.append(seg.strip())
                            cur = i + 1
            elif c == ',' and d == 0:
                out.append(arms[cur:i].strip())
                cur = i + 1
        i += 1
    tail = arms[cur:].strip()
    if tail:
        out.append(tail)
    res = []
    for a in out:
        a = re.sub(r'^(\s*#\[[^\]]*\]\s*)+', '', a)
        if '=>' in a:
            pat, _, body = a.partition('=>')
            res.append((re.sub(r'\s+', ' ', pat.strip()), re.sub(r'\s+', ' ', body.strip())))
    return res


CMP_RE = re.compile(r'impl\s+::std::cmp::(Ord|PartialOrd|PartialEq)\s+for\s+([\w:]+)\s*\{')


def find_cmp_impls(src):
    """macro-generated (not derive(..)-generated: those use ::core::cmp) comparison impls"""
    m = rs.mask(src)
    out = {}
    for mm in CMP_RE.finditer(src):
        ob = mm.end() - 1
        cb = rs.match_close(src, m, ob)
        blk = src[ob + 1:cb]
        fb = blk.index('{')
        mb = rs.mask(blk)
        fe = rs.match_close(blk, mb, fb)
        out.setdefault(mm.group(2), {})[mm.group(1)] = {'body': blk[fb + 1:fe], 'line': src.count('\n', 0, mm.start()) + 1}
    return out


def gen_cmp(short, cmp_impls, variants, custom, counts):
    """functions cmp / partial_cmp / eq with the expansion's bodies (N6: AsRef::<str>::as_ref(x) -> as_ref(x), self -> this;
    N7: `a == other` on &str -> str_eq(a, other))"""
    L = []
    L.append('    pub open spec fn spelling(this: &%s) -> Seq<char> {' % short)
    L.append('        match this {')
    for v, l in variants:
        L.append('            %s::%s => "%s"@,' % (short, v, l))
    L.append('            %s::%s(inner) => inner.view(),' % (short, custom))
    L.append('        }')
    L.append('    }')

    def norm(body):
        b = body
        b = b.replace('::std::convert::AsRef::<::std::primitive::str>::as_ref(', 'as_ref(')
        b = re.sub(r'\bself\b', 'this', b)
        b = b.replace('::std::cmp::Ordering', 'core::cmp::Ordering').replace('::std::option::Option', 'Option')
        b = b.replace('::std::mem::discriminant', 'core::mem::discriminant').replace('::core::mem::discriminant', 'core::mem::discriminant')
        b = re.sub(r'\bSelf\b', short, b)
        counts['N6'] = counts.get('N6', 0) + 1
        return b

    if 'Ord' in cmp_impls:
        L.append('    pub fn cmp(this: &%s, other: &%s) -> (r: core::cmp::Ordering)' % (short, short))
        L.append('        ensures')
        L.append('            //#post:ordering_agrees_with_the_string_form')
        L.append('            r == str_cmp_spec(spelling(this), spelling(other)),')
        L.append('    {' + norm(cmp_impls['Ord']['body']) + '}')
    if 'PartialOrd' in cmp_impls:
        L.append('    pub fn partial_cmp(this: &%s, other: &%s) -> (r: Option<core::cmp::Ordering>)' % (short, short))
        L.append('        ensures')
        L.append('            //#post:partial_ordering_agrees_with_the_string_form')
        L.append('            r == Some(str_cmp_spec(spelling(this), spelling(other))),')
        L.append('    {' + norm(cmp_impls['PartialOrd']['body']) + '}')
    if 'PartialEq' in cmp_impls:
        b = norm(cmp_impls['PartialEq']['body'])
        b2 = re.sub(r'as_ref\(this\)\s*==\s*other', 'str_eq(as_ref(this), other)', b)
        if b2 != b:
            counts['N7'] = counts.get('N7', 0) + 1
        L.append('    pub fn eq(this: &%s, other: &%s) -> (r: bool)' % (short, short))
        L.append('        ensures')
        L.append('            //#post:equality_agrees_with_the_string_form')
        L.append('            r == (spelling(this) == spelling(other)),')
        L.append('    {' + b2 + '}')
    return L


def find_enums(src):
    m = rs.mask(src)
    enums = {}
    for mm in ASREF_RE.finditer(src):
        name = mm.group(1)
        ob = mm.end() - 1
        cb = rs.match_close(src, m, ob)
        scrut, arms, _ = _match_body(src, m, ob)
        line = src.count('\n', 0, mm.start()) + 1
        enums.setdefault(name, {})['as_ref'] = {'arms': _split_arms(arms), 'line': line, 'scrut': scrut}
    for mm in FROM_RE.finditer(src):
        name = mm.group(1)
        ob = src.index('{', mm.end())
        scrut, arms, _ = _match_body(src, m, ob)
        line = src.count('\n', 0, mm.start()) + 1
        enums.setdefault(name, {})['from'] = {'arms': _split_arms(arms), 'line': line, 'scrut': scrut}
    return {k: v for k, v in enums.items() if 'as_ref' in v and 'from' in v}


TOCOW_RE = re.compile(r'impl\s+([\w:]+)\s*\{\s*fn\s+to_cow_str\s*\(')
FROMSTR_RE = re.compile(r'impl\s+::std::convert::From<&::std::primitive::str>\s+for\s+([\w:]+)\s*\{')


def find_event_type_enums(src):
    m = rs.mask(src)
    enums = {}
    for mm in TOCOW_RE.finditer(src):
        name = mm.group(1)
        scrut, arms, _ = _match_body(src, m, mm.end())
        enums.setdefault(name, {})['to'] = {'arms': _split_arms(arms), 'line': src.count('\n', 0, mm.start()) + 1}
    for mm in FROMSTR_RE.finditer(src):
        name = mm.group(1)
        scrut, arms, _ = _match_body(src, m, mm.end())
        enums.setdefault(name, {})['from'] = {'arms': _split_arms(arms), 'line': src.count('\n', 0, mm.start()) + 1, 'scrut': scrut}
    return {k: v for k, v in enums.items() if 'to' in v and 'from' in v}


def gen_event_type_enum(k, name, info, counts, skipped):
    short = name.split('::')[-1]
    variants = []   # (variant, literal)
    wild = []       # (variant, prefix)
    custom = None
    to_arms = []
    for pat, body in info['to']['arms']:
        mmv = re.fullmatch(r'Self::(\w+)', pat)
        mmw = re.fullmatch(r'Self::(\w+)\((\w+)\)', pat)
        mmc = re.fullmatch(r'Self::(\w+)\(crate::PrivOwnedStr\((\w+)\)\)', pat)
        mb = re.fullmatch(r'::std::borrow::Cow::Borrowed\("((?:[^"\\]|\\.)*)"\)', body)
        if mmv and mb:
            variants.append((mmv.group(1), mb.group(1)))
            to_arms.append('%s::%s => CowShim::borrowed("%s")' % (short, mmv.group(1), mb.group(1)))
        elif mmc and re.fullmatch(r'::std::borrow::Cow::Borrowed\(%s\)' % mmc.group(2), body):
            custom = mmc.group(1)
            to_arms.append('%s::%s(inner) => CowShim::borrowed(inner.as_str())' % (short, custom))
            counts['N2'] = counts.get('N2', 0) + 1
        elif mmw:
            mf = re.search(r'format_args!\("((?:[^"\\{]|\\.)*)\{0\}",\s*%s\)' % mmw.group(2), body)
            if not mf or 'Cow::Owned' not in body:
                skipped.append('%s: wildcard arm not `Cow::Owned(format!("prefix{}", x))`: %s' % (name, body[:80]))
                return None
            wild.append((mmw.group(1), mf.group(1)))
            to_arms.append('%s::%s(_s) => CowShim::concat("%s", _s.as_str())' % (short, mmw.group(1), mf.group(1)))
            counts['N5'] = counts.get('N5', 0) + 1
        else:
            skipped.append('%s: to_cow_str arm of unknown shape: %s => %s' % (name, pat, body[:60]))
            return None
    if custom is None:
        skipped.append('%s: no _Custom variant' % name)
        return None
    spellings = []
    guards = []     # (prefix, variant, strip_fn)
    fr_arms = []
    for pat, body in info['from']['arms']:
        if re.fullmatch(r'"((?:[^"\\]|\\.)*)"(\s*\|\s*"((?:[^"\\]|\\.)*)")*', pat):
            mmv = re.fullmatch(r'Self::(\w+)', body)
            if not mmv:
                skipped.append('%s: from arm body: %s' % (name, body[:60]))
                return None
            for lit in re.findall(r'"((?:[^"\\]|\\.)*)"', pat):
                spellings.append((lit, mmv.group(1)))
            fr_arms.append('%s => %s::%s' % (pat, short, mmv.group(1)))
        elif pat == '_':
            if not re.fullmatch(r'Self::%s\(crate::PrivOwnedStr\(::std::convert::From::from\(s\)\)\)' % custom, body):
                skipped.append('%s: fallback arm: %s' % (name, body[:80]))
                return None
            fr_arms.append('_ => %s::%s(PrivOwnedStr::new(s))' % (short, custom))
            counts['N3'] = counts.get('N3', 0) + 1
        else:
            mg = re.fullmatch(r'(\w+) if \1\.starts_with\("((?:[^"\\]|\\.)*)"\)', pat)
            mb = re.fullmatch(r'\{ Self::(\w+)\(::std::convert::From::from\((\w+)\.(\w+)\("((?:[^"\\]|\\.)*)"\)(\.unwrap\(\))?\)\) \}', body)
            if not mg or not mb or mb.group(2) != mg.group(1):
                skipped.append('%s: guard arm of unknown shape: %s => %s' % (name, pat[:60], body[:100]))
                return None
            guards.append((mg.group(2), mb.group(1), mb.group(3), mb.group(4)))
            # the call that removes the prefix is kept as written (strip_prefix(..).unwrap() in the pinned tree)
            fr_arms.append('%s if %s.starts_with("%s") => { %s::%s(WildStr::new(%s.%s("%s")%s)) }' % (
                mg.group(1), mg.group(1), mg.group(2), short, mb.group(1), mg.group(1), mb.group(3), mb.group(4), mb.group(5) or ''))
            counts['N3'] = counts.get('N3', 0) + 1
    if info['from']['scrut'] != 's':
        skipped.append('%s: from() does not match on s' % name)
        return None
    canon = dict(variants)
    all_lits = []
    for l, _ in spellings:
        if l not in all_lits:
            all_lits.append(l)
    for _, l in variants:
        if l not in all_lits:
            all_lits.append(l)
    wild_prefix = dict(wild)
    mod = 'e%d_%s' % (k, short)
    L = ['pub mod %s {' % mod, '    use super::*;',
         '    // event-type enum %s: expansion lines %d (to_cow_str) and %d (From<&str>)' % (name, info['to']['line'], info['from']['line']),
         '    pub enum %s { %s%s %s(PrivOwnedStr) }' % (short, ''.join(v + ', ' for v, _ in variants), ''.join('%s(WildStr), ' % v for v, _ in wild), custom)]
    L.append(vunit.gen_litdistinct('lits', all_lits).replace('\n', '\n    ').join(['    ', '']))
    # literals do not start with a wildcard prefix (else the literal arm would shadow / be shadowed): proved per pair
    L.append('    pub proof fn lits_vs_prefixes()')
    L.append('        ensures')
    pairs = [(l, pfx) for l in all_lits for pfx, _, _, _ in guards]
    for l, pfx in pairs:
        L.append('            !is_char_prefix("%s"@, "%s"@),' % (pfx, l))
    if not pairs:
        L.append('            true,')
    L.append('    {')
    for x in sorted(set(all_lits + [g[0] for g in guards])):
        L.append('        reveal_strlit("%s");' % x)
    for l, pfx in pairs:
        if len(l) >= len(pfx):
            kk = next((i for i in range(len(pfx)) if l[i] != pfx[i]), None)
            if kk is None:
                skipped.append('%s: literal %r starts with wildcard prefix %r' % (name, l, pfx))
                return None
            L.append('        assert("%s"@[%d] != "%s"@[%d]);' % (pfx, kk, l, kk))
        else:
            L.append('        assert("%s"@.len() > "%s"@.len());' % (pfx, l))
    L.append('    }')
    # to_cow_str
    L.append('    pub fn to_cow_str(this: &%s) -> (r: CowShim)' % short)
    L.append('        ensures')
    L.append('            //#post:each_variant_yields_its_spelling')
    L.append('            match this {')
    for v, l in variants:
        L.append('                %s::%s => r.view() == "%s"@,' % (short, v, l))
    for v, pfx in wild:
        L.append('                %s::%s(x) => r.view() == "%s"@ + x.view(),' % (short, v, pfx))
    L.append('                %s::%s(inner) => r.view() == inner.view(),' % (short, custom))
    L.append('            },')
    L.append('    {')
    L.append('        match this {')
    for a in to_arms:
        L.append('            %s,' % a)
    L.append('        }')
    L.append('    }')
    # from
    L.append('    pub fn from(s: &str) -> (r: %s)' % short)
    L.append('        ensures')
    L.append('            //#post:each_spelling_maps_to_its_variant')
    for l, v in spellings:
        L.append('            s@ == "%s"@ ==> r == %s::%s,' % (l, short, v))
    not_lit = ' && '.join('s@ != "%s"@' % l for l, _ in spellings) or 'true'
    L.append('            //#post:wildcard_types_keep_their_suffix')
    prev = []
    for pfx, v, _, _ in guards:
        cond = ' && '.join([not_lit] + ['!is_char_prefix("%s"@, s@)' % p for p in prev] + ['is_char_prefix("%s"@, s@)' % pfx])
        L.append('            (%s) ==> (r matches %s::%s(x) && x.view() == s@.subrange("%s"@.len() as int, s@.len() as int)),' % (cond, short, v, pfx))
        prev.append(pfx)
    L.append('            //#post:unknown_strings_are_kept_in_custom')
    cond = ' && '.join([not_lit] + ['!is_char_prefix("%s"@, s@)' % p for p in prev])
    L.append('            (%s) ==> (r matches %s::%s(p) && p.view() == s@),' % (cond, short, custom))
    L.append('    {')
    L.append('        broadcast use {vp_enum::ax_str_ext_view, vp_enum::group_prefix};')
    L.append('        proof { lits(); lits_vs_prefixes(); }')
    L.append('        match s {')
    for a in fr_arms:
        L.append('            %s,' % a)
    L.append('        }')
    L.append('    }')
    alias_cases = []
    for l, v in spellings:
        if v in canon and canon[v] != l:
            alias_cases.append('(s@ == "%s"@ && r.view() == "%s"@)' % (l, canon[v]))
    L.append('    pub fn roundtrip(s: &str) {')
    L.append('        broadcast use {vp_enum::ax_str_ext_view, vp_enum::ax_priv_ext, vp_enum::group_prefix};')
    L.append('        let e = from(s);')
    L.append('        let r = to_cow_str(&e);')
    L.append('        proof { lits(); lits_vs_prefixes(); }')
    L.append('        //#assert:lossless_round_trip_except_declared_aliases')
    L.append('        assert(r.view() =~= s@%s);' % (''.join(' || ' + a for a in alias_cases)))
    L.append('    }')
    L.append('}')
    return '\n'.join(L), {'enum': name, 'variants': len(variants), 'spellings': len(spellings), 'aliases': len(alias_cases), 'wildcards': len(wild),
                          'table': sorted([l, v] for l, v in spellings) + sorted([p + '*', v] for v, p in wild)}


def gen_enum(k, name, info, counts, skipped, cmp_impls=None):
    short = name.split('::')[-1]
    # ---- as_ref arms: `X::Variant => "lit"` / `X::_Custom(inner) => &inner.0`
    variants = []      # (variant, literal)
    custom = None
    as_arms = []
    for pat, body in info['as_ref']['arms']:
        mmv = re.fullmatch(r'(?:[\w:]+::)?(\w+)', pat)
        mmc = re.fullmatch(r'(?:[\w:]+::)?(\w+)\((\w+)\)', pat)
        if mmv and re.fullmatch(r'"((?:[^"\\]|\\.)*)"', body):
            variants.append((mmv.group(1), body[1:-1]))
            as_arms.append('%s::%s => %s' % (short, mmv.group(1), body))
        elif mmc and re.fullmatch(r'&\s*%s\.0' % re.escape(mmc.group(2)), body):
            custom = mmc.group(1)
            as_arms.append('%s::%s(%s) => %s.as_str()' % (short, custom, mmc.group(2), mmc.group(2)))
            counts['N2'] = counts.get('N2', 0) + 1
        else:
            skipped.append('%s: as_ref arm not of the string-enum shape: %s => %s' % (name, pat, body[:60]))
            return None
    if custom is None:
        skipped.append('%s: no _Custom(PrivOwnedStr) variant (not a forward-compatible string enum)' % name)
        return None
    # ---- from arms: `"lit" => X::Variant` / `_ => X::_Custom { 0: PrivOwnedStr(s.into()) }`
    spellings = []     # (literal, variant)
    fr_arms = []
    for pat, body in info['from']['arms']:
        if re.fullmatch(r'"((?:[^"\\]|\\.)*)"', pat):
            mmv = re.fullmatch(r'(?:[\w:]+::)?(\w+)', body)
            if not mmv:
                skipped.append('%s: from arm body not a unit variant: %s' % (name, body[:60]))
                return None
            spellings.append((pat[1:-1], mmv.group(1)))
            fr_arms.append('%s => %s::%s' % (pat, short, mmv.group(1)))
        elif pat == '_':
            if not re.fullmatch(r'(?:[\w:]+::)?%s\s*\{\s*0:\s*PrivOwnedStr\(s\.into\(\)\)\s*,?\s*\}' % custom, body) and \
               not re.fullmatch(r'(?:[\w:]+::)?%s\(PrivOwnedStr\(s\.into\(\)\)\)' % custom, body):
                skipped.append('%s: fallback arm is not `_Custom(PrivOwnedStr(s.into()))`: %s' % (name, body[:80]))
                return None
            fr_arms.append('_ => %s::%s(PrivOwnedStr::new(s))' % (short, custom))
            counts['N3'] = counts.get('N3', 0) + 1
            counts['N4'] = counts.get('N4', 0) + 1
        else:
            skipped.append('%s: from arm pattern not a literal: %s' % (name, pat[:60]))
            return None
    if info['from']['scrut'] != 's.as_ref()':
        skipped.append('%s: from() does not match on s.as_ref()' % name)
        return None
    if any('\\' in l or '"' in l for l, _ in spellings) or any('\\' in l for _, l in variants):
        skipped.append('%s: literal with escapes' % name)
        return None
    canon = dict(variants)                      # variant -> canonical spelling
    all_lits = []
    for l, _ in spellings:
        if l not in all_lits:
            all_lits.append(l)
    for _, l in variants:
        if l not in all_lits:
            all_lits.append(l)
    mod = 'e%d_%s' % (k, short)
    L = []
    L.append('pub mod %s {' % mod)
    L.append('    use super::*;')
    L.append('    // enum %s: expansion lines %d (AsRef<str>) and %d (From<T>)' % (name, info['as_ref']['line'], info['from']['line']))
    L.append('    pub enum %s { %s, %s(PrivOwnedStr) }' % (short, ', '.join(v for v, _ in variants), custom))
    L.append(vunit.gen_litdistinct('lits', all_lits).replace('\n', '\n    ').join(['    ', '']))
    # as_ref
    L.append('    pub fn as_ref(this: &%s) -> (r: &str)' % short)
    L.append('        ensures')
    L.append('            //#post:each_variant_yields_its_spelling')
    L.append('            match this {')
    for v, l in variants:
        L.append('                %s::%s => r@ == "%s"@,' % (short, v, l))
    L.append('                %s::%s(inner) => r@ == inner.view(),' % (short, custom))
    L.append('            },')
    L.append('    {')
    L.append('        match this {')
    for a in as_arms:
        L.append('            %s,' % a)
    L.append('        }')
    L.append('    }')
    # from
    L.append('    pub fn from(s: &str) -> (r: %s)' % short)
    L.append('        ensures')
    L.append('            //#post:each_spelling_maps_to_its_variant')
    for l, v in spellings:
        L.append('            s@ == "%s"@ ==> r == %s::%s,' % (l, short, v))
    L.append('            //#post:unknown_strings_are_kept_in_custom')
    cond = ' && '.join('s@ != "%s"@' % l for l, _ in spellings) or 'true'
    L.append('            (%s) ==> (r matches %s::%s(p) && p.view() == s@),' % (cond, short, custom))
    L.append('    {')
    L.append('        broadcast use vp_enum::ax_str_ext_view;')
    L.append('        proof { lits(); }')
    L.append('        match s {')
    for a in fr_arms:
        L.append('            %s,' % a)
    L.append('        }')
    L.append('    }')
    # round trip
    alias_cases = []
    for l, v in spellings:
        if v in canon and canon[v] != l:
            alias_cases.append('(s@ == "%s"@ && r@ == "%s"@)' % (l, canon[v]))
    L.append('    pub fn roundtrip(s: &str) {')
    L.append('        broadcast use {vp_enum::ax_str_ext_view, vp_enum::ax_priv_ext};')
    L.append('        let e = from(s);')
    L.append('        let r = as_ref(&e);')
    L.append('        proof { lits(); }')
    L.append('        //#assert:lossless_round_trip_except_declared_aliases')
    L.append('        assert(r@ == s@%s);' % (''.join(' || ' + a for a in alias_cases)))
    L.append('        let e2 = from(r);')
    L.append('        //#assert:conversion_is_idempotent')
    L.append('        assert(e2 == e);')
    L.append('    }')
    if cmp_impls:
        L.extend(gen_cmp(short, cmp_impls, variants, custom, counts))
    # declared spelling -> dedicated variant and back
    L.append('    pub fn spellings() {')
    for v, l in variants:
        L.append('        let e = from("%s");' % l)
        L.append('        proof { lits(); }')
        L.append('        //#assert:spelling_%s' % re.sub(r'\W', '_', l))
        L.append('        assert(e == %s::%s);' % (short, v))
    L.append('    }')
    L.append('}')
    return '\n'.join(L), {'enum': name, 'variants': len(variants), 'spellings': len(spellings), 'aliases': len(alias_cases), 'string_form_comparisons': sorted(cmp_impls.keys()) if cmp_impls else [],
                          'table': sorted([l, v] for l, v in spellings)}


PRELUDE = '''// GENERATED by tools/enumgen.py from the compiler's macro expansion of %(crate)s (on this run).
#![feature(pattern)]
#![allow(unused_imports, dead_code, unused_variables, non_snake_case, non_camel_case_types)]
use vstd::prelude::*;
use vstd::string::*;

verus! {

pub mod vp_enum {
    use super::*;
    // TRUSTED: str values with equal views are equal (string-literal match)
    pub broadcast axiom fn ax_str_ext_view(a: &str, b: &str)
        ensures (#[trigger] a@ == #[trigger] b@) ==> a == b;
    // TRUSTED: PrivOwnedStr(Box<str>) stores the string it is built from
    #[verifier::external_body] pub struct PrivOwnedStr { _p: u8 }
    impl PrivOwnedStr {
        pub uninterp spec fn view(&self) -> Seq<char>;
        #[verifier::external_body]
        pub fn new(s: &str) -> (r: PrivOwnedStr) ensures r.view() == s@ { unimplemented!() }
        #[verifier::external_body]
        pub fn as_str(&self) -> (r: &str) ensures r@ == self.view() { unimplemented!() }
    }
    // TRUSTED: two PrivOwnedStr with the same characters are equal
    pub broadcast axiom fn ax_priv_ext(a: PrivOwnedStr, b: PrivOwnedStr)
        ensures (#[trigger] a.view() == #[trigger] b.view()) ==> a == b;

    // ---- string order / equality of str (TRUSTED: std's lexicographic byte order, as an uninterpreted function) ----
    pub uninterp spec fn str_cmp_spec(a: Seq<char>, b: Seq<char>) -> core::cmp::Ordering;
    pub assume_specification [ <str as Ord>::cmp ] (a: &str, b: &str) -> (r: core::cmp::Ordering)
        ensures r == str_cmp_spec(a@, b@);
    pub assume_specification [ <str as PartialOrd>::partial_cmp ] (a: &str, b: &str) -> (r: Option<core::cmp::Ordering>)
        ensures r == Some(str_cmp_spec(a@, b@));
    #[verifier::external_body]
    pub fn str_eq(a: &str, b: &str) -> (r: bool) ensures r == (a@ == b@) { unimplemented!() }
    // std::mem::discriminant: an uninterpreted function of the value
    #[verifier::external_type_specification]
    #[verifier::external_body]
    #[verifier::accept_recursive_types(T)]
    pub struct ExDiscriminant<T>(core::mem::Discriminant<T>);
    pub uninterp spec fn discr_spec<T>(v: &T) -> core::mem::Discriminant<T>;
    pub assume_specification<T> [ core::mem::discriminant::<T> ] (v: &T) -> (r: core::mem::Discriminant<T>)
        ensures r == discr_spec(v);
    pub assume_specification<T> [ <core::mem::Discriminant<T> as PartialEq>::eq ] (a: &core::mem::Discriminant<T>, b: &core::mem::Discriminant<T>) -> (r: bool)
        ensures r == (*a == *b);

    // ---- wildcard event types: suffix holder, Cow<str> result, prefix tests on the char view (TRUSTED) ----
    #[verifier::external_body] pub struct WildStr { _p: u8 }
    impl WildStr {
        pub uninterp spec fn view(&self) -> Seq<char>;
        #[verifier::external_body]
        pub fn new(s: &str) -> (r: WildStr) ensures r.view() == s@ { unimplemented!() }
        #[verifier::external_body]
        pub fn as_str(&self) -> (r: &str) ensures r@ == self.view() { unimplemented!() }
    }
    #[verifier::external_body] pub struct CowShim { _p: u8 }
    impl CowShim {
        pub uninterp spec fn view(&self) -> Seq<char>;
        #[verifier::external_body]
        pub fn borrowed(s: &str) -> (r: CowShim) ensures r.view() == s@ { unimplemented!() }
        /// `Cow::Owned(format!("<prefix>{}", x))`
        #[verifier::external_body]
        pub fn concat(prefix: &str, x: &str) -> (r: CowShim) ensures r.view() == prefix@ + x@ { unimplemented!() }
    }
    pub open spec fn is_char_prefix(p: Seq<char>, s: Seq<char>) -> bool {
        p.len() <= s.len() && s.subrange(0, p.len() as int) == p
    }
    pub open spec fn trim_start_spec(s: Seq<char>, p: Seq<char>) -> Seq<char>
        decreases s.len()
    {
        if p.len() > 0 && is_char_prefix(p, s) { trim_start_spec(s.subrange(p.len() as int, s.len() as int), p) } else { s }
    }
    pub uninterp spec fn sw_spec<P>(s: &str, p: P) -> bool;
    pub uninterp spec fn sp_spec<'a, P>(s: &'a str, p: P) -> Option<&'a str>;
    pub uninterp spec fn tsm_spec<'a, P>(s: &'a str, p: P) -> &'a str;
    #[verifier::allow(undeclared_external_trait)]
    pub assume_specification<P: core::str::pattern::Pattern> [ str::starts_with::<P> ] (s: &str, p: P) -> (r: bool)
        ensures r == sw_spec(s, p);
    #[verifier::allow(undeclared_external_trait)]
    pub assume_specification<'a, P: core::str::pattern::Pattern> [ str::strip_prefix::<P> ] (s: &'a str, p: P) -> (r: Option<&'a str>)
        ensures r == sp_spec(s, p);
    #[verifier::allow(undeclared_external_trait)]
    pub assume_specification<'a, P: core::str::pattern::Pattern> [ str::trim_start_matches::<P> ] (s: &'a str, p: P) -> (r: &'a str)
        ensures r == tsm_spec(s, p);
    pub broadcast axiom fn ax_starts_with_str(s: &str, p: &str)
        ensures #[trigger] sw_spec::<&str>(s, p) == is_char_prefix(p@, s@);
    pub broadcast axiom fn ax_strip_prefix_str<'a>(s: &'a str, p: &str)
        ensures match #[trigger] sp_spec::<&str>(s, p) {
            Some(rest) => is_char_prefix(p@, s@) && rest@ == s@.subrange(p@.len() as int, s@.len() as int),
            None => !is_char_prefix(p@, s@),
        };
    pub broadcast axiom fn ax_trim_start_matches_str<'a>(s: &'a str, p: &str)
        ensures (#[trigger] tsm_spec::<&str>(s, p))@ == trim_start_spec(s@, p@);
    pub broadcast group group_prefix { ax_starts_with_str, ax_strip_prefix_str, ax_trim_start_matches_str }
}
use vp_enum::*;
'''


def build_unit(unit_name, crate, features):
    src, cmd = expand(crate, features)
    enums = find_enums(src)
    cmps = find_cmp_impls(src)
    u = vunit.Unit(unit_name)
    counts = {}
    skipped = []
    parts = [PRELUDE % {'crate': crate}]
    infos = []
    k = 0
    for name in sorted(enums):
        if name.split('::')[-1] == 'RoomVersionId':
            skipped.append('%s: excluded by the property statement' % name)
            continue
        g = gen_enum(k, name, enums[name], counts, skipped, cmps.get(name))
        if g is None:
            continue
        text, info = g
        parts.append(text)
        infos.append(info)
        k += 1
    ev = find_event_type_enums(src)
    for name in sorted(ev):
        g = gen_event_type_enum(k, name, ev[name], counts, skipped)
        if g is None:
            continue
        text, info = g
        parts.append(text)
        infos.append(info)
        k += 1
    if k == 0:
        raise vunit.Undecided('no string enum found in the expansion of %s' % crate)
    parts.append('''pub mod vacuity {
    use super::*;
    proof fn vp_canary(a: PrivOwnedStr, b: PrivOwnedStr)
        ensures
            //#canary:must_fail
            false,
    {
        broadcast use {vp_enum::ax_str_ext_view, vp_enum::ax_priv_ext};
    }
}

} // verus!''')
    text = '\n'.join(parts)
    for i, ln in enumerate(text.split('\n')):
        u.lines.append(ln)
        u.origin.append(('gen', 'expansion of %s' % crate))
    # comparison impls written by #[derive(PartialOrd, Ord)] (::core::cmp paths in the expansion): structural order, i.e. by
    # declaration index with every unknown value after all known ones - never the order of the string forms
    structural = set(re.findall(r'impl\s+::core::cmp::(?:Ord|PartialOrd)\s+for\s+([\w:]+)\s*\{', src))
    for info in infos:
        info['structural_ordering'] = info['enum'] in structural
    u.counts = counts
    u.enum_infos = infos
    u.skipped = skipped
    u.expand_cmd = cmd
    return u


if __name__ == '__main__':
    crate = sys.argv[1]
    feats = sys.argv[2] if len(sys.argv) > 2 else ''
    u = build_unit('enums_' + crate.replace('-', '_'), crate, feats)
    obl = vunit.enumerate_obligations(u)
    run = vunit.run_verus(u, os.path.join(VERIF, '.cache', 'asm'))
    failed, und = vunit.classify(u, run, obl)
    vr = run['json'].get('verification-results', {})
    print('%d enums, %d obligations, verified=%s errors=%s wall=%.1fs' % (len(u.enum_infos), len(obl), vr.get('verified'), vr.get('errors'), run['wall_s']))
    for d in run['diags']:
        if d.get('level') == 'error' and not d['message'].startswith('aborting'):
            print(d.get('rendered', d['message'])[:1200])
    print('FAILED', {k: [x['text'][:80] for x in v] for k, v in failed.items() if 'canary' not in k})
    print('UNDECIDED', und[:10])
    print('SKIPPED', u.skipped)
