#!/bin/bash
# adopt_seed.sh <id> <m> <crate> [features]: confirm a sub-agent's seed from /tmp/seeded in a scratch worktree and copy it to /verif/seeded
set -u
ID=$1; M=$2; CRATE=$3; FEAT=${4:-}
mkdir -p /tmp/confirm
/verif/tools/confirm_seed.sh /tmp/seeded/$ID/$M $CRATE $FEAT >/dev/null 2>&1
R=$(grep "\"seed\":\"$ID-$M\"" /tmp/confirm/results.jsonl | tail -1)
echo "$R"
python3 - "$ID" "$M" "$R" <<'PY'
import json, sys, os, shutil
pid, m, r = sys.argv[1], sys.argv[2], json.loads(sys.argv[3])
ok = r.get('applies') and r.get('demo_with_patch_exit') != 0 and r.get('demo_without_patch_exit') == 0
src = '/tmp/seeded/%s/%s' % (pid, m)
log = open('/tmp/confirm/%s-%s.tests_with.log' % (pid, m)).read()
fails = [l for l in log.split('\n') if l.startswith('test ') and l.endswith('FAILED')]
# failing tests that are not part of the demo binary: demo tests are listed after "Running tests/verif_demo.rs"
sections = log.split('Running ')
other = []
for sec in sections:
    if sec.startswith('tests/verif_demo.rs'):
        continue
    other += [l for l in sec.split('\n') if l.startswith('test ') and l.endswith('FAILED')]
print('confirmed' if ok and not other else 'NOT CONFIRMED', 'other failing tests:', other[:5])
if ok and not other:
    dst = '/verif/seeded/%s/%s' % (pid, m)
    if os.path.exists(dst):
        shutil.rmtree(dst)
    shutil.copytree(src, dst)
    meta = json.load(open(dst + '/meta.json'))
    meta['confirmed_by_me'] = {'worktree': 'scratch worktree of /repo HEAD under /tmp/confirm, removed afterwards', 'script': 'tools/confirm_seed.sh',
                               'demo_with_patch_exit': r['demo_with_patch_exit'], 'demo_without_patch_exit': r['demo_without_patch_exit'],
                               'existing_crate_tests_with_patch': 'pass (only the demo test binary fails; ui trybuild tests skipped)'}
    json.dump(meta, open(dst + '/meta.json', 'w'), indent=1)
PY
