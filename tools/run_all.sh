#!/bin/bash
# Runs every claimed check (quick tier by default) on the current /repo tree; prints a summary.
cd "$(dirname "$0")/.."
TIER=${1:-quick}
# replay files left over from runs on modified trees (seed matrix) are removed: what is committed comes from this run
if [ -z "$(git -C /repo status --porcelain 2>/dev/null)" ]; then rm -f evidence/replay/*.json; fi
fail=0
for p in $(python3 -c "import json;print(' '.join(sorted(json.load(open('units/units.json'))['properties'])))"); do
  out=$(./check $p --tier $TIER 2>&1); rc=$?
  echo "$p rc=$rc $(echo "$out" | grep -E "^$p \[" | head -1)"
  [ $rc -ne 0 ] && { fail=1; echo "$out" | tail -5; }
done
exit $fail
