"""Replay for unit rvr: dump RoomVersionId::rules() of the real code for each version and compare
with the spec tables (same tables as kani/ruma_common.rs mod rvr)."""
import re


def expected(v):
    return {
        'keep_room_aliases_aliases': v <= 5, 'keep_room_join_rules_allow': v >= 8,
        'keep_room_member_join_authorised_via_users_server': v >= 9, 'keep_origin_membership_prev_state': v <= 10,
        'keep_room_create_content': v >= 11, 'keep_room_redaction_redacts': v >= 11, 'keep_room_power_levels_invite': v >= 11,
        'keep_room_member_third_party_invite_signed': v >= 11,
        'special_case_room_redaction': v <= 2, 'special_case_room_aliases': v <= 5, 'strict_canonical_json': v >= 6,
        'limit_notifications_power_levels': v >= 6, 'knocking': v >= 7, 'restricted_join_rule': v >= 8,
        'knock_restricted_join_rule': v >= 10, 'integer_power_levels': v >= 10, 'use_room_create_sender': v >= 11,
        'check_event_id_server': v <= 2, 'check_join_authorised_via_users_server': v >= 8,
        'enforce_key_validity': v >= 5,
        'event_id_format': 'V1' if v <= 2 else ('V2' if v == 3 else 'V3'),
        'state_res': 'V1' if v == 1 else 'V2',
    }


def judge(case, args, res):
    v = int(args[0])
    if res['outcome'] != 'ok':
        return 'no rules for version %d' % v
    d = res['detail']
    for k, want in expected(v).items():
        mm = re.search(r'\b%s: (\w+)' % k, d)
        if not mm:
            return 'field %s missing' % k
        got = mm.group(1)
        w = ('true' if want else 'false') if isinstance(want, bool) else want
        if got != w:
            return 'room version %d: %s is %s, spec says %s' % (v, k, got, w)
    return None


def search(obligation, tier, seed, run_batch):
    cand = [str(v) for v in range(1, 12)]
    res = run_batch([['rvr.table', x] for x in cand])
    for x, r in zip(cand, res):
        why = judge('rvr.table', [x], r)
        if why:
            return {'case': 'rvr.table', 'args': [x], 'observed': r, 'expected': why}
    return None
