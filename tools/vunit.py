"""Verus unit assembler / runner / classifier.

A unit template (units/<name>.vrs) is a Verus source file with directives:

  //@ features a,b,c                    feature set used for T3 (cfg resolution)
  //@ extract <relpath> :: <seg> [:: <seg>]...   [as <newname>] [ret <name>] [vis <pub|>] [keep-attrs]
  //@   rename <A> => <B>               T6: textual (token-boundary) rename, name resolution only
  //@   t4 <kind> <ordinal>             T4: desugar one iterator adapter site (see t4.py)
  //@   spec                            following lines are spliced between signature and body
  //@   loop <k>                        following lines are spliced after the k-th loop header
  //@   proof before|after <k> <literal statement prefix>   following lines spliced as-is
  //@   body-prefix                     following lines spliced right after the body's opening brace
  //@ end
  //@ open <relpath> :: <seg>...        emit the item's header through '{' verbatim (T1 applied)
  //@ close                             emit '}'

Everything else is copied verbatim (prelude, spec fns, lemmas).
Clause labels: a comment `//#<kind>:<label>` inside spliced spec text labels the
clause(s) that follow until the next label.
"""
import hashlib
import json
import os
import re
import subprocess
import sys
import time

sys.path.insert(0, os.path.dirname(os.path.abspath(__file__)))
import rustscan as rs
import t4 as t4mod

REPO = os.environ.get('RUMA_REPO', '/repo')
VERIF = os.path.dirname(os.path.dirname(os.path.abspath(__file__)))


class Undecided(Exception):
    """anchor lost / unsupported construct / tool failure: exit 2, never an alarm"""


# ----------------------------------------------------------------- transformations

def eval_cfg(expr, features):
    expr = expr.strip()
    mm = re.fullmatch(r'feature\s*=\s*"([^"]*)"', expr)
    if mm:
        return mm.group(1) in features
    mm = re.fullmatch(r'(not|all|any)\s*\((.*)\)', expr, re.S)
    if mm:
        op, inner = mm.group(1), mm.group(2)
        parts = split_top(inner, ',')
        vals = [eval_cfg(p, features) for p in parts if p.strip()]
        if op == 'not':
            return not vals[0]
        if op == 'all':
            return all(vals)
        return any(vals)
    if expr in ('test', 'kani', 'ruma_verif', 'ruma_unstable_exhaustive_types', 'docsrs', 'debug_assertions'):
        # debug_assertions: the pinned test build is a debug build, but no unit depends on it
        return False
    mm = re.fullmatch(r'(\w+)\s*=\s*"([^"]*)"', expr)
    if mm:
        return False
    raise Undecided('cannot evaluate cfg(%s)' % expr)


def split_top(s, sep):
    out, d, cur = [], 0, ''
    for c in s:
        if c in '([{':
            d += 1
        elif c in ')]}':
            d -= 1
        if c == sep and d == 0:
            out.append(cur)
            cur = ''
        else:
            cur += c
    out.append(cur)
    return out


def apply_t3_t1(text, features, counts, keep_attrs=False):
    """Resolve cfg attributes (T3) and drop the remaining outer attributes (T1).
    Works on the item text; attributes are found at CODE positions."""
    changed = True
    while changed:
        changed = False
        m = rs.mask(text)
        i = 0
        n = len(text)
        while i < n:
            if m[i] == rs.CODE and text[i] == '#' and i + 1 < n and text[i + 1] in '[!':
                j = i + 1
                if text[j] == '!':
                    j += 1
                if j >= n or text[j] != '[':
                    i += 1
                    continue
                k = rs.match_close(text, m, j)
                attr = text[j + 1:k].strip()
                mm = re.match(r'cfg\s*\((.*)\)$', attr, re.S)
                if mm:
                    on = eval_cfg(mm.group(1), features)
                    counts['T3'] = counts.get('T3', 0) + 1
                    if on:
                        text = text[:i] + text[k + 1:]
                    else:
                        # drop attribute and the item/statement/expression it governs
                        e = _governed_end(text, m, k + 1)
                        # doc comments directly above the attribute belong to the dropped item
                        b = i
                        ls_i = text.rfind('\n', 0, i) + 1
                        if re.sub(TAG + r'T?\d+' + TAG, '', text[ls_i:i]).strip() == '':
                            while ls_i > 0:
                                pls = text.rfind('\n', 0, ls_i - 1) + 1
                                prev = re.sub(TAG + r'T?\d+' + TAG, '', text[pls:ls_i - 1]).strip()
                                if prev.startswith('///'):
                                    ls_i = pls
                                else:
                                    break
                            b = ls_i
                        text = text[:b] + text[e:]
                    changed = True
                    break
                mm = re.match(r'cfg_attr\s*\(', attr)
                if mm or not keep_attrs:
                    counts['T1'] = counts.get('T1', 0) + 1
                    text = text[:i] + text[k + 1:]
                    changed = True
                    break
                i = k + 1
                continue
            i += 1
    return text


def _governed_end(text, m, i):
    """end (exclusive) of the item / statement / match arm / struct field that starts at i"""
    n = len(text)
    j = i
    # skip whitespace, further attributes, doc comments
    while j < n:
        if m[j] == rs.COMMENT or text[j].isspace():
            j += 1
        elif text[j] == '#' and text[j + 1] == '[':
            j = rs.match_close(text, m, j + 1) + 1
        else:
            break
    saw_arrow = False
    while j < n:
        if m[j] == rs.CODE:
            c = text[j]
            if c in '([':
                j = rs.match_close(text, m, j) + 1
                continue
            if c == '{':
                e = rs.match_close(text, m, j) + 1
                # block-like item or `if .. { }` statement; swallow trailing ',' for arms
                k = e
                while k < n and text[k] in ' \t':
                    k += 1
                if k < n and text[k] == ',':
                    return k + 1
                # match arm pattern with braces: `Pat { .. } => body,`
                mm_arrow = re.match(r'\s*=>', text[e:])
                if mm_arrow:
                    j = e + mm_arrow.end()
                    continue
                # `if cond {..} else {..}`
                mm = re.match(r'\s*else\b', text[e:])
                if mm:
                    j = e + mm.end()
                    continue
                # let x = Foo { .. };  -> continue to ';'
                mm2 = re.match(r'\s*[;.?]', text[e:])
                if mm2:
                    j = e
                    continue
                return e
            if c == ';' or c == ',':
                return j + 1
            if c in ')]}':
                return j
        j += 1
    return n


TRACE_MACROS = ('trace', 'debug', 'info', 'warn', 'error')


def apply_t2(text, counts):
    m = rs.mask(text)
    out = []
    i = 0
    last = 0
    for s, e, mm in rs.find_code(text, m, r'(?<![\w:])(?:tracing::)?(?:%s)!\s*\(' % '|'.join(TRACE_MACROS), 0, len(text)):
        if s < last:
            continue
        # must be statement position: previous non-space code char is one of ; { } or start
        p = s - 1
        while p >= 0:
            if text[p] == TAG:
                p = text.rfind(TAG, 0, p) - 1
            elif text[p].isspace() or m[p] == rs.COMMENT:
                p -= 1
            else:
                break
        if p >= 0 and text[p] not in ';{}':
            continue
        close = rs.match_close(text, m, e - 1)
        k = close + 1
        while k < len(text) and text[k] in ' \t':
            k += 1
        if k < len(text) and text[k] == ';':
            k += 1
        out.append(text[last:s])
        out.append('/* T2: tracing statement dropped */')
        last = k
        counts['T2'] = counts.get('T2', 0) + 1
    out.append(text[last:])
    return ''.join(out)


def apply_rename(text, a, b, counts):
    m = rs.mask(text)
    pat = re.escape(a)
    if re.match(r'\w', a[0]):
        pat = r'(?<![\w])' + pat
    if re.match(r'\w', a[-1]):
        pat = pat + r'(?![\w])'
    out, last, cnt = [], 0, 0
    for mm in re.finditer(pat, text):
        if m[mm.start()] != rs.CODE and not (a[0] == '"' and m[mm.start()] != rs.COMMENT):
            continue
        out.append(text[last:mm.start()])
        out.append(b)
        last = mm.end()
        cnt += 1
    out.append(text[last:])
    if cnt == 0:
        raise Undecided('rename %r matched nothing' % a)
    counts['T6'] = counts.get('T6', 0) + cnt
    return ''.join(out)


# ----------------------------------------------------------------- splice (T5)

def sig_end(text, m):
    """index of the '{' that opens the fn body (first '{' at depth 0 outside parens/brackets/angle-less)"""
    j = 0
    n = len(text)
    while j < n:
        if m[j] == rs.CODE:
            c = text[j]
            if c in '([':
                j = rs.match_close(text, m, j) + 1
                continue
            if c == '{':
                return j
            if c == ';':
                return None
        j += 1
    return None


def name_return(text, m, body_open, ret):
    """rewrite `-> T` into `-> (ret: T)` in the signature part text[:body_open]"""
    sig = text[:body_open]
    # find '->' at depth 0 after the parameter list
    j = 0
    arrow = None
    while j < len(sig):
        if m[j] == rs.CODE:
            c = sig[j]
            if c in '([':
                j = rs.match_close(text, m, j) + 1
                continue
            if sig.startswith('->', j):
                arrow = j
        j += 1
    if arrow is None:
        return text, body_open
    after = sig[arrow + 2:]
    mm = re.search(r'\bwhere\b', after)
    tend = arrow + 2 + (mm.start() if mm else len(after))
    ty = sig[arrow + 2:tend].strip()
    if ty.startswith('(') and re.match(r'\(\s*\w+\s*:', ty):
        return text, body_open
    new_sig = sig[:arrow] + '-> (%s: %s)' % (ret, ty) + ('\n' + sig[tend:] if mm else ' ')
    return new_sig + text[body_open:], len(new_sig)


def loop_headers(text, m, body_open):
    """positions of the '{' that opens each loop body (while / for / loop), in source order"""
    res = []
    for s, e, mm in rs.find_code(text, m, r'\b(while|for|loop)\b', body_open, len(text)):
        # find the '{' that opens the loop body: first '{' at paren depth 0 after keyword
        # (struct literals are not allowed in loop conditions without parens)
        kw = mm.group(1)
        if kw == 'for' and re.match(r'\s*<', text[e:]):
            continue  # for<'a> bound
        j = e
        while j < len(text):
            if m[j] == rs.CODE:
                c = text[j]
                if c in '([':
                    j = rs.match_close(text, m, j) + 1
                    continue
                if c == '{':
                    res.append(j)
                    break
            j += 1
    return res


def statement_anchor(text, m, prefix, k, body_open):
    """k-th (0-based) CODE occurrence of the literal prefix in the body; return (start_of_line, end_of_statement)"""
    hits = [s for s, e, mm in rs.find_code(text, m, re.escape(prefix), body_open, len(text))]
    if len(hits) <= k:
        raise Undecided('proof anchor %r #%d not found' % (prefix, k))
    s = hits[k]
    ls = text.rfind('\n', 0, s) + 1
    # end of statement: next ';' at depth 0 from s, or closing of a block statement
    j = s
    while j < len(text):
        if m[j] == rs.CODE:
            c = text[j]
            if c in '([{':
                j = rs.match_close(text, m, j) + 1
                if c == '{':
                    # block statement (if/match/while) ends here unless followed by ; or else/.
                    mm = re.match(r'\s*(;|else\b|\.|\?)', text[j:])
                    if not mm:
                        return ls, j
                continue
            if c == ';':
                return ls, j + 1
        j += 1
    return ls, len(text)


# ----------------------------------------------------------------- assembly

class Unit:
    def __init__(self, name):
        self.name = name
        self.template = os.path.join(VERIF, 'units', name + '.vrs')
        self.lines = []        # assembled lines
        self.origin = []       # per line: ('tmpl', lineno) | ('repo', file, lineno) | ('gen', note)
        self.functions = []    # extracted functions: dict(name, file, path, sha256, line_lo, line_hi, labels)
        self.counts = {}
        self.rewrites = []
        self.features = set()
        self.labels = {}       # assembled line -> label
        self.includes = []

    def emit(self, text, origin_fn):
        for k, ln in enumerate(text.split('\n')):
            self.lines.append(ln)
            self.origin.append(origin_fn(k))


def assemble(name):
    u = Unit(name)
    tl = open(u.template).read().split('\n')
    i = 0
    while i < len(tl):
        ln = tl[i]
        s = ln.strip()
        if s.startswith('//@'):
            d = s[3:].strip()
            if d.startswith('features'):
                u.features = set(x.strip() for x in d[len('features'):].split(',') if x.strip())
                i += 1
                continue
            if d.startswith('open '):
                spec = d[5:].strip()
                relpath, path = parse_path(spec)
                src = read_repo(relpath)
                st, en, bo, m = locate_or_undecided(src, path, relpath)
                header = src[st:bo + 1]
                header = apply_t3_t1(header, u.features, u.counts)
                base = src.count('\n', 0, st) + 1
                u.emit(header, lambda k, b=base, f=relpath: ('repo', f, b + k))
                i += 1
                continue
            if d.startswith('litbytes '):
                mm = re.match(r'litbytes\s+(\w+)\s+"((?:[^"\\]|\\.)*)"\s*$', d)
                if not mm:
                    raise Undecided('%s:%d: bad litbytes' % (u.template, i + 1))
                lit = mm.group(2)
                val = bytes(lit, 'utf-8').decode('unicode_escape').encode('latin-1') if '\\' in lit else lit.encode('utf-8')
                seq = 'seq![%s]' % ', '.join('%du8' % b for b in val) if val else 'Seq::<u8>::empty()'
                u.emit('pub axiom fn %s() ensures "%s".spec_bytes() == %s;' % (mm.group(1), lit, seq),
                       lambda k, t=i: ('gen', 'litbytes (UTF-8 bytes of the literal computed by the assembler) from template line %d' % (t + 1)))
                i += 1
                continue
            if d.startswith('litdistinct '):
                mm = re.match(r'litdistinct\s+(\w+)\s+(.*)$', d)
                lits = re.findall(r'"((?:[^"\\]|\\.)*)"', mm.group(2))
                u.emit(gen_litdistinct(mm.group(1), lits),
                       lambda k, t=i: ('gen', 'litdistinct lemma generated from template line %d' % (t + 1)))
                i += 1
                continue
            if d.startswith('include '):
                rel = d[len('include '):].strip()
                inc = open(os.path.join(VERIF, rel)).read().rstrip('\n')
                u.emit(inc, lambda k, f=rel: ('prelude', f, k + 1))
                u.includes.append(rel)
                i += 1
                continue
            if d == 'close':
                u.emit('}', lambda k, t=i: ('tmpl', t + 1))
                i += 1
                continue
            if d.startswith('extract '):
                # collect sub-directives until //@ end
                j = i + 1
                subs = []
                cur = None
                while j < len(tl):
                    sj = tl[j].strip()
                    if sj.startswith('//@'):
                        dj = sj[3:].strip()
                        if dj == 'end':
                            break
                        cur = {'d': dj, 'lines': [], 'tline': j + 1}
                        subs.append(cur)
                    elif cur is not None:
                        cur['lines'].append((tl[j], j + 1))
                    elif sj:
                        raise Undecided('%s:%d: text before first sub-directive' % (u.template, j + 1))
                    j += 1
                else:
                    raise Undecided('%s:%d: extract without end' % (u.template, i + 1))
                do_extract(u, d[len('extract '):], subs, i + 1)
                i = j + 1
                continue
            raise Undecided('%s:%d: unknown directive %r' % (u.template, i + 1, d))
        u.lines.append(ln)
        u.origin.append(('tmpl', i + 1))
        i += 1
    return u


def gen_litdistinct(name, lits):
    """proof fn: the given string literals are pairwise distinct as Seq<char> (generated mechanically:
    reveal_strlit + length facts + one differing index per equal-length pair). Verified by Verus, not trusted."""
    if len(set(lits)) != len(lits):
        raise Undecided('litdistinct %s: duplicate literal' % name)
    ens = []
    body = []
    for a in lits:
        body.append('    reveal_strlit("%s");' % a)
    for a in lits:
        body.append('    assert("%s"@.len() == %d);' % (a, len(a)))
    for x in range(len(lits)):
        for y in range(x + 1, len(lits)):
            a, b = lits[x], lits[y]
            ens.append('        "%s"@ != "%s"@,' % (a, b))
            if len(a) == len(b):
                k = next(i for i in range(len(a)) if a[i] != b[i])
                body.append('    assert("%s"@[%d] != "%s"@[%d]);' % (a, k, b, k))
    return 'pub proof fn %s()\n    ensures\n%s\n{\n%s\n}' % (name, '\n'.join(ens) if ens else '        true,', '\n'.join(body))


def parse_path(spec):
    parts = [p.strip() for p in spec.split('::')]
    # re-join segments that were split inside generics e.g. "impl Foo for a::B"
    relpath = parts[0]
    segs = []
    for p in parts[1:]:
        if re.match(r'(fn|impl|const|enum|struct|trait|mod|static|type|union)[\s<]', p):
            segs.append(p)
        else:
            segs[-1] = segs[-1] + '::' + p
    return relpath, segs


_repo_cache = {}


def read_repo(relpath):
    if relpath.startswith('@expanded/'):
        p = os.path.join(os.environ.get('RUMA_VERIF_EXPANDED', os.path.join(VERIF, '.cache', 'expanded')), relpath[len('@expanded/'):])
    else:
        p = os.path.join(REPO, relpath)
    if p not in _repo_cache:
        try:
            _repo_cache[p] = open(p).read()
        except OSError as e:
            raise Undecided('cannot read %s: %s' % (p, e))
    return _repo_cache[p]


def locate_or_undecided(src, path, relpath):
    try:
        return rs.locate(src, path)
    except (rs.NotFound, ValueError) as e:
        raise Undecided('anchor lost in %s: %s' % (relpath, e))


def do_extract(u, spec, subs, tline):
    opts = {}
    mm = re.search(r'\s+\[(.*)\]\s*$', spec)
    if mm:
        for kv in mm.group(1).split(','):
            k, _, v = kv.strip().partition('=')
            opts[k.strip()] = v.strip() if v else True
        spec = spec[:mm.start()]
    relpath, path = parse_path(spec)
    src = read_repo(relpath)
    st, en, bo, m = locate_or_undecided(src, path, relpath)
    raw = src[st:en]
    sha = hashlib.sha256(raw.encode()).hexdigest()
    base_line = src.count('\n', 0, st) + 1
    fn_counts = {}
    text = raw
    # line tracking: we tag every original line with a marker comment? Simpler: keep a parallel
    # list mapping by prefixing each original line number in a side table using unique sentinels.
    text = tag_lines(text, base_line)
    text = apply_t3_t1(text, u.features, fn_counts, keep_attrs=bool(opts.get('keep-attrs')))
    text = apply_t2(text, fn_counts)
    for sd in subs:
        d = sd['d']
        if d.startswith('rename ') or d.startswith('rename? '):
            optional = d.startswith('rename? ')
            a, _, b = d[len('rename? ' if optional else 'rename '):].partition('=>')
            try:
                text = apply_rename(text, a.strip(), b.strip(), fn_counts)
            except Undecided:
                # `rename?`: a site-specific rewrite whose site may legitimately be absent
                if not optional:
                    raise
    for sd in subs:
        d = sd['d']
        if d.startswith('t4 '):
            args = d.split()[1:]
            if args[0] == 'split_or_guard':
                text, n = t4mod.split_or_guard(text)
                fn_counts['T4'] = fn_counts.get('T4', 0) + n
                u.rewrites.append({'fn': ' :: '.join(path), 'file': relpath, 'kind': 'T4', 'what': 'split_or_guard: %d match arm(s) `C(A | B) if G` duplicated per alternative' % n})
                continue
            if args[0] == 'self_dot0':
                text, n = t4mod.self_dot0(text)
                fn_counts['T4'] = fn_counts.get('T4', 0) + n
                u.rewrites.append({'fn': ' :: '.join(path), 'file': relpath, 'kind': 'T4', 'what': 'self_dot0: %d occurrence(s) of `self.0` (the str field of the newtype) written as `self.as_str()`' % n})
                continue
            if args[0] == 'guard_to_if':
                text, note = t4mod.guard_to_if(text, int(args[1]))
                fn_counts['T4'] = fn_counts.get('T4', 0) + 1
                u.rewrites.append({'fn': ' :: '.join(path), 'file': relpath, 'kind': 'T4', 'what': note})
                continue
            if args[0] == 'for_rev':
                text, note = t4mod.for_rev(text, int(args[1]))
                fn_counts['T4'] = fn_counts.get('T4', 0) + 1
                u.rewrites.append({'fn': ' :: '.join(path), 'file': relpath, 'kind': 'T4', 'what': note})
                continue
            if args[0] == 'let_closure_contract':
                # t4 let_closure_contract <name> <label> <spec...>
                rest = d.split(None, 4)[4]
                text, note = t4mod.let_closure_contract(text, args[1], args[2], rest)
                fn_counts['T4'] = fn_counts.get('T4', 0) + 1
                u.rewrites.append({'fn': ' :: '.join(path), 'file': relpath, 'kind': 'T4', 'what': note})
                continue
            if args[0] in ('for_slice', 'for_refs'):
                # t4 for_slice <k> [adapter]   (elements bound by reference) / t4 for_refs <k> [adapter] (by value)
                text, note = t4mod.for_indexed(text, int(args[1]), args[0] == 'for_slice', args[2] if len(args) > 2 else None)
                fn_counts['T4'] = fn_counts.get('T4', 0) + 1
                u.rewrites.append({'fn': ' :: '.join(path), 'file': relpath, 'kind': 'T4', 'what': note})
                continue
            if args[0] in ('let_init', 'const_array', 'closure_contract'):
                if args[0] == 'let_init':
                    # t4 let_init <var> <shim expression>
                    text, note = t4mod.let_init(text, args[1], d.split(None, 3)[3])
                elif args[0] == 'const_array':
                    text, note = t4mod.const_array(text)
                else:
                    # t4 closure_contract <k> <name> <label> |typed params| <spec>
                    rest = d.split(None, 5)[5]
                    mm_ = re.match(r'\|([^|]*)\|\s*(.*)$', rest)
                    text, note = t4mod.closure_contract(text, int(args[1]), args[2], args[3], mm_.group(1).strip(), mm_.group(2).strip())
                fn_counts['T4'] = fn_counts.get('T4', 0) + 1
                u.rewrites.append({'fn': ' :: '.join(path), 'file': relpath, 'kind': 'T4', 'what': note})
                continue
            if args[0] == 'bind_call':
                # t4 bind_call <callee> <lemma> [deref]
                text, n = t4mod.bind_call(text, args[1], args[2], len(args) > 3 and args[3] == 'deref')
                if n == 0:
                    raise Undecided('T4 bind_call: no call of %s' % args[1])
                fn_counts['T4'] = fn_counts.get('T4', 0) + n
                u.rewrites.append({'fn': ' :: '.join(path), 'file': relpath, 'kind': 'T4', 'what': 'bind_call: %d call(s) of closure `%s` let-bound with ghost lemma %s' % (n, args[1], args[2])})
                continue
            if len(args) > 1 and args[1] == '*':
                # every site of this kind (zero or more)
                while t4mod.count_sites(text, args[0]) > 0:
                    text, note = t4mod.apply(text, [args[0], '0'])
                    fn_counts['T4'] = fn_counts.get('T4', 0) + 1
                    u.rewrites.append({'fn': ' :: '.join(path), 'file': relpath, 'kind': 'T4', 'what': note})
                continue
            text, note = t4mod.apply(text, args)
            fn_counts['T4'] = fn_counts.get('T4', 0) + 1
            u.rewrites.append({'fn': ' :: '.join(path), 'file': relpath, 'kind': 'T4', 'what': note})
    for sd in subs:
        d = sd['d']
        if d.startswith('keep-derive '):
            names = [x.strip() for x in d[len('keep-derive '):].split(',') if x.strip()]
            # the item's own attributes precede `st` in the source file
            head = src[max(0, st - 1500):st]
            mm = list(re.finditer(r'#\[derive\(([^)]*)\)\]', head))
            have = set()
            for m_ in mm:
                # only derives that directly precede the item (no other item in between)
                if re.search(r'[;}]', head[m_.end():]):
                    continue
                have.update(x.strip().split('::')[-1] for x in m_.group(1).split(','))
            for nme in names:
                if nme not in have:
                    raise Undecided('keep-derive %s: the item does not derive it in /repo' % nme)
            text = tag_tmpl('#[derive(%s)]' % ', '.join(names), sd['tline']) + '\n' + text
            fn_counts['T1-kept-derive'] = fn_counts.get('T1-kept-derive', 0) + len(names)
    is_fn = path[-1].startswith('fn ')
    labels_local = []
    if is_fn:
        m2 = rs.mask(text)
        bo2 = sig_end(text, m2)
        if 'as' in opts:
            fname = path[-1].split()[1]
            text = re.sub(r'\bfn\s+%s\b' % re.escape(fname), 'fn ' + opts['as'], text, count=1)
            m2 = rs.mask(text)
            bo2 = sig_end(text, m2)
        if bo2 is not None:
            ret = opts.get('ret', 'r')
            text, bo2 = name_return(text, m2, bo2, ret)
            m2 = rs.mask(text)
            bo2 = sig_end(text, m2)
        else:
            # trait method declaration: name the return value in front of the final ';'
            semi = text.rstrip().rfind(';')
            text, _ = name_return(text, m2, semi, opts.get('ret', 'r'))
            m2 = rs.mask(text)
        # splices: gather (position, text) then apply from the end
        splices = []
        for sd in subs:
            d = sd['d']
            body = '\n'.join(tag_tmpl(l, n) for l, n in sd['lines'])
            if d == 'spec':
                if bo2 is None:
                    # trait method declaration: splice before ';'
                    pos = text.rstrip().rfind(';')
                    splices.append((pos, '\n' + body + '\n'))
                else:
                    splices.append((bo2, '\n' + body + '\n'))
                fn_counts['T5'] = fn_counts.get('T5', 0) + 1
            elif d == 'body-prefix':
                splices.append((bo2 + 1, '\n' + body + '\n'))
                fn_counts['T5'] = fn_counts.get('T5', 0) + 1
            elif d.startswith('loop '):
                k = int(d.split()[1])
                lh = loop_headers(text, m2, bo2)
                if k >= len(lh):
                    raise Undecided('%s: loop #%d not found in %s' % (u.name, k, path[-1]))
                splices.append((lh[k], '\n' + body + '\n'))
                fn_counts['T5'] = fn_counts.get('T5', 0) + 1
            elif d.startswith('proof '):
                mm = re.match(r'proof\s+(before|after)\s+(\d+)\s+(.*)$', d)
                if not mm:
                    raise Undecided('bad proof directive %r' % d)
                where, k, prefix = mm.group(1), int(mm.group(2)), mm.group(3)
                ls, se = statement_anchor(text, m2, prefix, k, bo2)
                pos = ls if where == 'before' else se
                splices.append((pos, ('' if where == 'before' else '\n') + body + '\n'))
                fn_counts['T5'] = fn_counts.get('T5', 0) + 1
            elif d.startswith('attr '):
                splices.append((0, tag_tmpl(d[len('attr '):].strip(), sd['tline']) + '\n'))
            elif d.startswith(('rename ', 'rename? ', 't4 ', 'keep-derive ')):
                pass
            else:
                raise Undecided('%s: unknown sub-directive %r' % (u.name, d))
        for pos, ins in sorted(splices, key=lambda x: -x[0]):
            text = text[:pos] + ins + text[pos:]
        vis = opts.get('vis')
        if vis is not None and vis is not True:
            text = re.sub(r'^(\s*)(pub(\s*\([^)]*\))?\s+)?', r'\1' + (vis + ' ' if vis else ''), text, count=1)
    else:
        for sd in subs:
            if not sd['d'].startswith(('rename ', 'rename? ', 't4 ', 'keep-derive ')):
                raise Undecided('%s: sub-directive %r on a non-fn item' % (u.name, sd['d']))
    # untag and emit
    first = len(u.lines) + 1
    for ln in text.split('\n'):
        ln, origin = untag(ln, relpath)
        u.lines.append(ln)
        u.origin.append(origin)
    last = len(u.lines)
    for k, v in fn_counts.items():
        u.counts[k] = u.counts.get(k, 0) + v
    if is_fn or path[-1].startswith(('const ', 'impl ', 'enum ', 'struct ', 'trait ', 'static ', 'type ')):
        u.functions.append({
            'item': ' :: '.join(path), 'file': relpath, 'sha256': sha, 'src_line': base_line,
            'asm_lo': first, 'asm_hi': last, 'is_fn': is_fn, 'transforms': fn_counts,
            'as': opts.get('as'),
        })


TAG = '\u0001'


def tag_lines(text, base):
    out = []
    for k, ln in enumerate(text.split('\n')):
        out.append('%s%d%s%s' % (TAG, base + k, TAG, ln))
    return '\n'.join(out)


def tag_tmpl(line, n):
    return '%sT%d%s%s' % (TAG, n, TAG, line)


def untag(ln, relpath):
    mm = re.match(TAG + r'(T?)(\d+)' + TAG, ln)
    origin = ('gen', '')
    if mm:
        origin = ('tmpl', int(mm.group(2))) if mm.group(1) else ('repo', relpath, int(mm.group(2)))
        ln = ln[mm.end():]
    # tags of joined lines (when a transformation glued two lines) are removed
    ln = re.sub(TAG + r'T?\d+' + TAG, '', ln)
    return ln, origin


# ----------------------------------------------------------------- obligations

LABEL_RE = re.compile(r'//#\s*([\w-]+):([\w.\-]+)')


def enumerate_obligations(u):
    """Named obligations of the assembled unit.
    For every function with a body inside verus!{}: one obligation per labelled spec clause,
    plus `safety` (callee preconditions, bounds, overflow, unwrap, unreachable) and, if it has a
    loop or recursion marker (decreases), `termination`."""
    src = '\n'.join(u.lines)
    m = rs.mask(src)
    fns = []
    for s, e, mm in rs.find_code(src, m, r'\b(?:(proof|spec|exec)\s+)?fn\s+(\w+)', 0, len(src)):
        mode = mm.group(1) or 'exec'
        pre = src[max(0, s - 40):s]
        if re.search(r'\b(spec|uninterp\s+spec|open\s+spec|closed\s+spec)\s*(\([^)]*\)\s*)?$', pre):
            mode = 'spec'
        if re.search(r'\bproof\s*$', pre) or re.search(r'\baxiom\s*$', pre):
            mode = 'proof' if 'axiom' not in pre[-8:] else 'axiom'
        if re.search(r'broadcast\s+axiom\s*$', pre) or re.search(r'\baxiom\s*$', pre):
            mode = 'axiom'
        name = mm.group(2)
        # find body
        j = e
        body_open = None
        while j < len(src):
            if m[j] == rs.CODE:
                c = src[j]
                if c in '([':
                    j = rs.match_close(src, m, j) + 1
                    continue
                if c == '{':
                    # a brace block inside a requires/ensures clause (`match r { .. },`) is followed by a comma;
                    # the function body never is
                    k = rs.match_close(src, m, j) + 1
                    while k < len(src) and (src[k].isspace() or m[k] != rs.CODE):
                        k += 1
                    if k < len(src) and src[k] == ',':
                        j = k + 1
                        continue
                    body_open = j
                    break
                if c == ';':
                    break
            j += 1
        if body_open is None:
            continue
        body_close = rs.match_close(src, m, body_open)
        lo = src.count('\n', 0, s) + 1
        hi = src.count('\n', 0, body_close) + 1
        # attributes just before
        head = src[max(0, s - 300):s]
        ext = bool(re.search(r'external_body\]\s*(pub(\([^)]*\))?\s+)?((open|closed|uninterp)\s+)?((proof|spec|exec|const)\s+)*$', head)) or \
            bool(re.search(r'#\[verifier::external\]\s*(pub\s+)?$', head))
        fns.append({'name': name, 'mode': mode, 'lo': lo, 'hi': hi, 'sig_lo': lo,
                    'body_lo': src.count('\n', 0, body_open) + 1, 'external_body': ext})
    # nesting: drop closures etc. Keep outermost + nested fns separately (ranges may nest)
    obligations = []
    for f in fns:
        if f['mode'] in ('spec', 'axiom') or f['external_body']:
            continue
        qual = qualify(u, f)
        f['qual'] = qual
        labels = []
        for ln in range(f['lo'], f['hi'] + 1):
            for mm in LABEL_RE.finditer(u.lines[ln - 1]):
                labels.append((ln, mm.group(1), mm.group(2)))
        f['labels'] = labels
        for ln, kind, lab in labels:
            obligations.append('%s::%s::%s:%s' % (u.name, qual, kind, lab))
        obligations.append('%s::%s::safety' % (u.name, qual))
        body = '\n'.join(u.lines[f['body_lo'] - 1:f['hi']])
        if re.search(r'\b(while|loop|for)\b', body) or re.search(r'\bdecreases\b', '\n'.join(u.lines[f['lo'] - 1:f['hi']])):
            obligations.append('%s::%s::termination' % (u.name, qual))
            if re.search(r'\binvariant\b', body):
                obligations.append('%s::%s::invariant' % (u.name, qual))
    u.fn_table = [f for f in fns if 'qual' in f]
    # de-duplicate while keeping order
    seen = set()
    out = []
    for o in obligations:
        if o in seen:
            raise Undecided('duplicate obligation name %s' % o)
        seen.add(o)
        out.append(o)
    return out


def qualify(u, f):
    """module-qualified name from enclosing `mod x {` / `impl .. {` lines in the assembled text"""
    src_lines = u.lines
    depth_stack = []
    # cheap: walk lines up to f.lo tracking 'mod name {' and 'impl ... {' with brace counting on masked text
    src = '\n'.join(src_lines[:f['lo']])
    m = rs.mask(src)
    stack = []
    for j, c in enumerate(src):
        if m[j] != rs.CODE:
            continue
        if c == '{':
            # what opened it?
            ls = src.rfind('\n', 0, j) + 1
            # header may span lines: look back to previous ';' '{' '}' at code level
            k = j - 1
            while k >= 0 and not (m[k] == rs.CODE and src[k] in ';{}'):
                k -= 1
            hdr = rs.norm_ws(re.sub(r'//[^\n]*', '', src[k + 1:j]))
            mm = re.search(r'\bmod\s+(\w+)$', hdr)
            if mm:
                stack.append(mm.group(1))
            else:
                mm = re.search(r'\bimpl\b(.*)$', hdr)
                if mm and not re.search(r'\bfn\b', hdr):
                    h = rs._strip_generics(mm.group(1).strip())
                    h = re.sub(r'\s+', '', h)
                    stack.append('impl[' + h + ']')
                else:
                    mm = re.search(r'\bfn\s+(\w+)', hdr)
                    if mm and mm.group(1) != f['name']:
                        stack.append(mm.group(1))
                    elif mm:
                        stack.append(None)
                    else:
                        stack.append(None)
        elif c == '}':
            if stack:
                stack.pop()
    parts = [s for s in stack if s]
    # the fn's own '{' has not been reached (we cut at its first line) unless signature is one line
    if parts and parts[-1] == f['name']:
        parts = parts[:-1]
    return '::'.join(parts + [f['name']])


# ----------------------------------------------------------------- run + classify

SEMANTIC = ('post', 'pre-of', 'safety', 'overflow', 'bounds', 'unwrap', 'invariant', 'termination')


def run_verus(u, outdir, extra_args=(), rlimit=None, timeout=600):
    os.makedirs(outdir, exist_ok=True)
    path = os.path.join(outdir, u.name + '.rs')
    open(path, 'w').write('\n'.join(u.lines) + '\n')
    cmd = ['verus', path, '--output-json', '--time', '--multiple-errors', '50', '--error-format=json',
           '--crate-type=lib'] + list(extra_args)
    if rlimit:
        cmd += ['--rlimit', str(rlimit)]
    t0 = time.time()
    env = dict(os.environ)
    env.pop('RUSTUP_TOOLCHAIN', None)
    try:
        p = subprocess.run(cmd, capture_output=True, text=True, timeout=timeout, cwd=outdir, env=env)
    except subprocess.TimeoutExpired:
        raise Undecided('verus timed out after %ds on %s' % (timeout, u.name))
    wall = time.time() - t0
    open(os.path.join(outdir, u.name + '.stdout.json'), 'w').write(p.stdout)
    open(os.path.join(outdir, u.name + '.stderr.txt'), 'w').write(p.stderr)
    try:
        js = json.loads(p.stdout)
    except Exception:
        raise Undecided('verus produced no JSON for %s (exit %d): %s' % (u.name, p.returncode, p.stderr[-2000:]))
    diags = []
    for ln in p.stderr.split('\n'):
        ln = ln.strip()
        if ln.startswith('{'):
            try:
                diags.append(json.loads(ln))
            except Exception:
                pass
    return {'cmd': ' '.join(cmd), 'wall_s': wall, 'json': js, 'diags': diags, 'exit': p.returncode, 'path': path}


def classify(u, run, obligations):
    """Map verus diagnostics to named obligations. Returns (failed: {obligation: [diag summaries]},
    undecided: [reasons])."""
    failed = {}
    undecided = []
    hint_failures = []
    u.hint_failures = hint_failures
    vr = run['json'].get('verification-results', {})
    if vr.get('encountered-vir-error'):
        undecided.append('verus VIR error (unsupported construct)')
    fname = os.path.basename(run['path'])
    for d in run['diags']:
        if d.get('level') != 'error':
            continue
        msg = d.get('message', '')
        if msg.startswith('aborting due to'):
            continue
        spans = d.get('spans', [])
        prim = [s for s in spans if s.get('is_primary') and s.get('file_name', '').endswith(fname)]
        sec = [s for s in spans if not s.get('is_primary') and s.get('file_name', '').endswith(fname)]
        if not prim and not sec:
            undecided.append('diagnostic without span in unit: ' + msg[:200])
            continue
        line = (prim or sec)[0]['line_start']
        f = fn_at(u, line)
        kind = None
        if 'postcondition not satisfied' in msg or 'unable to prove post-condition of closure' in msg:
            kind = 'post'
        elif 'precondition not satisfied' in msg:
            kind = 'pre-of'
        elif 'arithmetic underflow/overflow' in msg or 'overflow' in msg:
            kind = 'overflow'
        elif 'invariant not satisfied' in msg:
            kind = 'invariant'
        elif 'decreases' in msg or 'termination' in msg:
            kind = 'termination'
        elif 'assertion failed' in msg or 'assert' in msg and 'failed' in msg:
            kind = 'assert'
        elif 'index out of bounds' in msg or 'out of bounds' in msg:
            kind = 'bounds'
        elif 'unreachable' in msg or 'panic' in msg:
            kind = 'safety'
        elif 'Resource limit' in msg or 'rlimit' in msg or 'timed out' in msg:
            undecided.append('resource limit: ' + msg[:200] + (' in ' + f['qual'] if f else ''))
            continue
        else:
            undecided.append('unclassified verus error: %s (line %d)' % (msg[:300], line))
            continue
        if f is None:
            undecided.append('error outside any function: %s (line %d)' % (msg[:200], line))
            continue
        summary = {'message': msg, 'asm_line': line, 'origin': u.origin[line - 1] if line - 1 < len(u.origin) else None,
                   'text': u.lines[line - 1].strip() if line - 1 < len(u.lines) else '',
                   'rendered': d.get('rendered', '')[:1500]}
        names = []
        if kind == 'post':
            # secondary span labelled "failed this postcondition" points at the clause
            cl = [s for s in spans if (s.get('label') or '').startswith('failed this postcondition')]
            labs = set()
            for s in cl:
                lab = label_at(u, f, s['line_start'], ('post', 'canary'))
                if lab:
                    labs.add(lab)
            if labs:
                names = ['%s::%s::%s' % (u.name, f['qual'], l) for l in sorted(labs)]
            else:
                undecided.append('postcondition failure without labelled clause in %s (line %d)' % (f['qual'], line))
                continue
        elif kind in ('pre-of', 'overflow', 'bounds', 'safety'):
            names = ['%s::%s::safety' % (u.name, f['qual'])]
            summary['subkind'] = kind
        elif kind == 'invariant':
            names = ['%s::%s::invariant' % (u.name, f['qual'])]
        elif kind == 'termination':
            names = ['%s::%s::termination' % (u.name, f['qual'])]
        elif kind == 'assert':
            # an assert carrying a label is an obligation in its own right; else proof maintenance
            lab = label_at(u, f, line, ('assert',), exact=True)
            if lab:
                names = ['%s::%s::%s' % (u.name, f['qual'], lab)]
            else:
                undecided.append('proof hint failed (assert) in %s at assembled line %d: %s' % (f['qual'], line, u.lines[line - 1].strip()[:120]))
                hint_failures.append(('%s::%s::hint' % (u.name, f['qual']), summary))
                continue
        for nm in names:
            if nm not in obligations:
                undecided.append('failure maps to unknown obligation %s' % nm)
                continue
            failed.setdefault(nm, []).append(summary)
    return failed, undecided


def fn_at(u, line):
    best = None
    for f in u.fn_table:
        if f['lo'] <= line <= f['hi']:
            if best is None or (f['hi'] - f['lo']) < (best['hi'] - best['lo']):
                best = f
    return best


def label_at(u, f, line, kinds, exact=False):
    best = None
    for ln, kind, lab in f['labels']:
        if kind in kinds and ln <= line:
            if exact and ln not in (line, line - 1):
                continue
            if best is None or ln > best[0]:
                best = (ln, '%s:%s' % (kind, lab))
    return best[1] if best else None


ASSUME_PATTERNS = [
    (r'\bassume\s*\(', 'assume'),
    (r'\badmit\s*\(', 'admit'),
    (r'external_body', 'external_body'),
    (r'\bassume_specification\b', 'assume_specification'),
    (r'\baxiom\s+fn\b', 'axiom'),
    (r'verifier::truncate', 'truncate'),
    (r'verifier::external\b', 'external'),
    (r'\buninterp\s+spec\b', 'uninterp'),
]


def scan_assumptions(u):
    """mechanical scan for every trusted construct in the assembled file"""
    found = []
    src = '\n'.join(u.lines)
    m = rs.mask(src)
    for pat, kind in ASSUME_PATTERNS:
        for s, e, mm in rs.find_code(src, m, pat, 0, len(src)):
            ln = src.count('\n', 0, s) + 1
            # describe by the next fn / struct name
            tail = src[e:e + 400]
            nm = re.search(r'\b(?:fn|struct|enum|type)\s+(\w+)|\[\s*([^\]]+?)\s*\]', tail)
            what = (nm.group(1) or nm.group(2)) if nm else ''
            if kind in ('assume', 'admit'):
                what = u.lines[ln - 1].strip()[:100]
            found.append('%s:%s' % (kind, rs.norm_ws(what)))
    # stable order, unique
    out = []
    for x in found:
        if x not in out:
            out.append(x)
    return out


# ----------------------------------------------------------------- dev CLI

def dev_main(argv):
    name = argv[1]
    outdir = os.path.join(VERIF, '.cache', 'asm')
    u = assemble(name)
    obl = enumerate_obligations(u)
    run = run_verus(u, outdir)
    failed, undecided = classify(u, run, obl)
    vr = run['json'].get('verification-results', {})
    print('unit %s: %d obligations, verus verified=%s errors=%s wall=%.1fs' % (name, len(obl), vr.get('verified'), vr.get('errors'), run['wall_s']))
    for d in run['diags']:
        if d.get('level') == 'error' and not d['message'].startswith('aborting'):
            print(d.get('rendered', d['message'])[:1800])
    print('FAILED obligations:')
    for k, v in failed.items():
        print('  ', k, [(x.get('subkind'), x['origin'], x['text'][:80]) for x in v])
    print('UNDECIDED:', undecided)
    print('counts', u.counts)
    if '-o' in argv:
        for o in obl:
            print('   ', o)


if __name__ == '__main__':
    try:
        dev_main(sys.argv)
    except Undecided as e:
        print('UNDECIDED:', e)
        sys.exit(2)
