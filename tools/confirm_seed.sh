#!/bin/bash
# confirm_seed.sh <seed-dir> <crate> [features]  -- confirms a seeded mutation in a scratch worktree of /repo HEAD:
# patch applies, crate tests still pass with it, demo fails with it and passes without it.
set -u
SD=$1; CRATE=$2; FEAT=${3:-}
NAME=$(echo $SD | sed 's|/tmp/seeded/||; s|/|-|g')
WT=/tmp/confirm/wt-$NAME
export RUSTUP_TOOLCHAIN=1.88.0 CARGO_TARGET_DIR=/tmp/confirm/target CARGO_NET_OFFLINE=true
FARG=""; [ -n "$FEAT" ] && FARG="--features $FEAT"
git -C /repo worktree add --detach -f $WT HEAD >/dev/null 2>&1
cd $WT
RES="{\"seed\":\"$NAME\""
if ! git apply $SD/patch.diff 2>/tmp/confirm/$NAME.apply.err; then
  echo "$RES,\"applies\":false}" >> /tmp/confirm/results.jsonl; cd /; git -C /repo worktree remove --force $WT; exit 0
fi
mkdir -p crates/$CRATE/tests
cp $SD/demo/demo.rs crates/$CRATE/tests/verif_demo.rs
cargo test --offline -j 6 -p $CRATE $FARG --test verif_demo > /tmp/confirm/$NAME.demo_with.log 2>&1; DW=$?
cargo test --offline -j 6 -p $CRATE $FARG --lib --tests -- --skip ui > /tmp/confirm/$NAME.tests_with.log 2>&1; TW=$?
# tests_with includes the demo (expected to fail); count failures excluding verif_demo
OTHERFAIL=$(grep -E "^test .* FAILED" /tmp/confirm/$NAME.tests_with.log | grep -v "^test demo\|verif_demo" | wc -l)
git apply -R $SD/patch.diff
cargo test --offline -j 6 -p $CRATE $FARG --test verif_demo > /tmp/confirm/$NAME.demo_without.log 2>&1; DO=$?
echo "$RES,\"applies\":true,\"demo_with_patch_exit\":$DW,\"demo_without_patch_exit\":$DO,\"tests_with_patch_exit\":$TW,\"other_failed_tests_log_lines\":$OTHERFAIL}" >> /tmp/confirm/results.jsonl
cd /; git -C /repo worktree remove --force $WT
