"""T4: mechanical desugaring of iterator adapters that Verus rejects into the
std-documented loop, keeping the closure body text P unchanged.

  RECV.bytes().all(|b| P)   ==>  loop over RECV.as_bytes(), stop at first !(P), result = no such byte
  RECV.bytes().any(|b| P)   ==>  loop over RECV.as_bytes(), stop at first P, result = such a byte exists
  RECV.iter().all(|x| P) / RECV.iter().any(|x| P)  (slice/Vec; x bound to &RECV[i])
  OPT.is_some_and(|x| P)    ==>  match OPT { Some(x) => P, None => false }
  OPT.is_none_or(|x| P)     ==>  match OPT { Some(x) => P, None => true }
  A.or_else(|| B)           ==>  match A { Some(v) => Some(v), None => B }
  A.unwrap_or_else(|| B)    ==>  match A { Some(v) => v, None => B }
  A.map_err(|_| E)          ==> match A { Ok(v) => Ok(v), Err(_) => Err(E) }   (kind map_err_const)

Each application names kind and ordinal (k-th site of that kind in the item).
"""
import re
import rustscan as rs


class T4Error(Exception):
    pass


def _receiver_start(text, m, dot):
    """walk back from the '.' at index `dot` over a postfix expression (line tags count as whitespace)"""
    j = dot - 1
    while True:
        while j >= 0:
            if text[j] == '\x01':
                j = text.rfind('\x01', 0, j) - 1
            elif text[j].isspace() or m[j] == rs.COMMENT:
                j -= 1
            else:
                break
        if j < 0:
            break
        c = text[j]
        if c in ')]':
            depth = 0
            k = j
            while k >= 0:
                if m[k] == rs.CODE:
                    if text[k] in ')]}':
                        depth += 1
                    elif text[k] in '([{':
                        depth -= 1
                        if depth == 0:
                            break
                k -= 1
            j = k - 1
            continue
        if c.isalnum() or c == '_':
            while j >= 0 and (text[j].isalnum() or text[j] == '_'):
                j -= 1
            k = j
            while k >= 0 and text[k].isspace():
                k -= 1
            if k >= 0 and text[k] == '.':
                j = k - 1
                continue
            if k >= 1 and text[k - 1:k + 1] == '::':
                j = k - 2
                continue
            return j + 1
        if c == '?':
            j -= 1
            continue
        break
    return j + 1


def _closure(text, m, open_paren):
    """text[open_paren] == '(' of `.all(` ; parse `|pat| body` up to matching ')'"""
    close = rs.match_close(text, m, open_paren)
    inner = text[open_paren + 1:close]
    mm = re.match(r'(?:\s|\x01T?\d+\x01)*(?:move\s+)?\|([^|]*)\|(?:\s|\x01T?\d+\x01)*', inner, re.S)
    if not mm:
        raise T4Error('closure expected')
    pat = mm.group(1).strip()
    body = inner[mm.end():].rstrip()
    if body.endswith(','):
        body = body[:-1].rstrip()
    return pat, body, close


SITES = {
    'bytes_all': r'\.\s*bytes\s*\(\s*\)\s*\.\s*all\s*\(',
    'bytes_any': r'\.\s*bytes\s*\(\s*\)\s*\.\s*any\s*\(',
    'iter_all': r'\.\s*iter\s*\(\s*\)\s*\.\s*all\s*\(',
    'iter_any': r'\.\s*iter\s*\(\s*\)\s*\.\s*any\s*\(',
    'is_some_and': r'\.\s*is_some_and\s*\(',
    'is_none_or': r'\.\s*is_none_or\s*\(',
    'is_ok_and': r'\.\s*is_ok_and\s*\(',
    'or_else': r'\.\s*or_else\s*\(',
    'unwrap_or_else': r'\.\s*unwrap_or_else\s*\(',
    'map_err_const': r'\.\s*map_err\s*\(',
    'map_err_fmt': r'\.\s*map_err\s*\(',
    'map_err_opaque': r'\.\s*map_err\s*\(',
    'ok_or_else': r'\.\s*ok_or_else\s*\(',
    'unwrap_or_ref': r'\.\s*unwrap_or\s*\(',
    'find_next': r'\)\s*\.\s*find\s*\(',
    'map_or': r'\.\s*map_or\s*\(',
    'any_next': r'\)\s*\.\s*any\s*\(',
    'format_opaque': r'(?<![\w:])format!\s*\(',
    'opt_map_ctor': r'\.\s*map\s*\(\s*[A-Z]\w*(?:::\w+)+\s*\)',
    'and_then': r'\.\s*and_then\s*\(',
    'chars_all': r'\.\s*chars\s*\(\s*\)\s*\.\s*all\s*\(',
    'entry_or_insert_with': r'\.\s*entry\s*\(',
    'is_some_and_fn': r'\.\s*is_some_and\s*\(\s*[a-z_]\w*\s*\)',
    'opt_map': r'\.\s*map\s*\(',
    'res_map': r'\.\s*map\s*\(',
    'bool_then': r'\.\s*then\s*\(',
    'assert_macro': r'(?<![\w:])assert!\s*\(',
}


def bind_call(text, callee, lemma, deref):
    """`CALLEE(ARGS)` ==> `{ let __t4_c = CALLEE(ARGS); proof { LEMMA(<*>CALLEE, (ARGS), __t4_c); } __t4_c }` for every call
    site of the closure-typed variable CALLEE: adds a let-binding and a proof block only."""
    n = 0
    pos = 0
    while True:
        m = rs.mask(text)
        hits = [h for h in rs.find_code(text, m, r'(?<![\w.:])' + re.escape(callee) + r'\(', pos, len(text))]
        if not hits:
            break
        s, e, mm = hits[0]
        close = rs.match_close(text, m, e - 1)
        args = text[e:close]
        nargs = 1
        d = 0
        for i_, c_ in enumerate(args):
            if m[e + i_] != rs.CODE:
                continue
            if c_ in '([{':
                d += 1
            elif c_ in ')]}':
                d -= 1
            elif c_ == ',' and d == 0 and args[i_ + 1:].strip():
                nargs += 1
        proj = ', '.join('__t4_a.%d' % i_ for i_ in range(nargs))
        new = '{ let __t4_a = (%s); let __t4_c = %s(%s); proof { %s(%s%s, __t4_a, __t4_c); } __t4_c }' % (
            args, callee, proj, lemma, '*' if deref else '', callee)
        text = text[:s] + new + text[close + 1:]
        pos = s + len(new)
        n += 1
    return text, n


def for_indexed(text, k, by_ref, adapter):
    """k-th `for PAT in EXPR { BODY }`  ==>  index loop over EXPR<.adapter()> (a slice / Vec):
    `{ let __t4_s = EXPR; let mut __t4_i: usize = 0; while __t4_i < __t4_s.len() { let PAT = <&>__t4_s[__t4_i]; __t4_i += 1; BODY } }`
    (the increment comes first so that `continue` in BODY keeps its meaning)"""
    m = rs.mask(text)
    hits = [h for h in rs.find_code(text, m, r'\bfor\b', 0, len(text)) if not re.match(r'\s*<', text[h[1]:])]
    if len(hits) <= k:
        from vunit import Undecided
        raise Undecided('T4 for-loop #%d not found' % k)
    s, e, mm = hits[k]
    # pattern up to ' in ' at depth 0
    j = e
    d = 0
    pat_end = None
    while j < len(text):
        if m[j] == rs.CODE:
            c = text[j]
            if c in '([{':
                d += 1
            elif c in ')]}':
                d -= 1
            elif d == 0 and re.match(r'\bin\b', text[j:j + 3]) and not (text[j - 1].isalnum() or text[j - 1] == '_'):
                pat_end = j
                break
        j += 1
    pat = text[e:pat_end].strip()
    j = pat_end + 2
    # expr up to '{' at depth 0
    d = 0
    while j < len(text):
        if m[j] == rs.CODE:
            c = text[j]
            if c in '([':
                j = rs.match_close(text, m, j) + 1
                continue
            if c == '{':
                break
        j += 1
    expr = text[pat_end + 2:j].strip()
    body_close = rs.match_close(text, m, j)
    body = text[j + 1:body_close]
    new = ('{ let __t4_s = %s%s; let mut __t4_i: usize = 0;\nwhile __t4_i < __t4_s.len() {\nlet %s = %s__t4_s[__t4_i]; __t4_i += 1;%s}\n}'
           % (expr, ('.' + adapter + '()') if adapter else '', pat, '&' if by_ref else '', body))
    note = 'for_indexed #%d: `for %s in %s`' % (k, pat, rs.norm_ws(re.sub('\x01T?\\d+\x01', '', expr)))
    return text[:s] + new + text[body_close + 1:], note


TAG = '\x01T?\\d+\x01'


def self_dot0(text):
    """every `self.0` (the `str` field of an identifier newtype `struct X(str)`, also written across lines) ==> `self.as_str()`,
    which the IdZst macro defines as exactly that field"""
    pat = re.compile(r'\bself(?:\s|' + TAG + r')*\.(?:\s|' + TAG + r')*0\b')
    m = rs.mask(text)
    out = []
    pos = 0
    n = 0
    for mm in pat.finditer(text):
        if m[mm.start()] != rs.CODE:
            continue
        out.append(text[pos:mm.start()])
        out.append('self.as_str()')
        pos = mm.end()
        n += 1
    out.append(text[pos:])
    return ''.join(out), n


def for_rev(text, k):
    """k-th `for PAT in EXPR.iter().rev() { BODY }`  ==>  index loop from the last element down:
    `{ let __t4_s = EXPR; let mut __t4_i: usize = __t4_s.len(); while __t4_i > 0 { __t4_i -= 1; let PAT = &__t4_s[__t4_i]; BODY } }`;
    a tuple pattern `(a, b)` binds references to the fields (`let __t4_e = &__t4_s[__t4_i]; let (a, b) = (&__t4_e.0, &__t4_e.1);`),
    which is what the default binding mode of the original pattern does."""
    m = rs.mask(text)
    hits = [h for h in rs.find_code(text, m, r'\bfor\b', 0, len(text)) if not re.match(r'\s*<', text[h[1]:])]
    if len(hits) <= k:
        from vunit import Undecided
        raise Undecided('T4 for-loop #%d not found' % k)
    s, e, mm = hits[k]
    mm2 = re.compile(r'(.*?)\bin\b(.*?)\.\s*iter\s*\(\s*\)\s*\.\s*rev\s*\(\s*\)\s*\{', re.S).match(text, e)
    if not mm2:
        from vunit import Undecided
        raise Undecided('T4 for_rev #%d: not a `for PAT in EXPR.iter().rev()` loop' % k)
    pat = mm2.group(1).strip()
    expr = mm2.group(2).strip()
    ob = mm2.end() - 1
    body_close = rs.match_close(text, m, ob)
    body = text[ob + 1:body_close]
    tm = re.match(r'^\(\s*(\w+)\s*,\s*(\w+)\s*\)$', pat)
    if tm:
        bind = 'let __t4_e = &__t4_s[__t4_i]; let (%s, %s) = (&__t4_e.0, &__t4_e.1);' % (tm.group(1), tm.group(2))
    else:
        bind = 'let %s = &__t4_s[__t4_i];' % pat
    new = ('{ let __t4_s = %s; let mut __t4_i: usize = __t4_s.len();\nwhile __t4_i > 0 {\n__t4_i -= 1; %s%s}\n}' % (expr, bind, body))
    return text[:s] + new + text[body_close + 1:], 'for_rev #%d: `for %s in %s.iter().rev()`' % (k, pat, rs.norm_ws(re.sub(TAG, '', expr)))


def let_closure_contract(text, name, label, spec):
    """`let NAME = |PARAMS| BODY;`  ==>  `let NAME = |PARAMS| -> (__t4_r: bool) ensures //#post:LABEL SPEC { BODY };`
    (Verus infers no postcondition for a closure; SPEC comes from the template and is checked against the real body)"""
    m = rs.mask(text)
    mm = re.compile(r'\blet\s+' + re.escape(name) + r'\s*=(?:\s|' + TAG + r')*\|([^|]*)\|').search(text)
    if not mm:
        from vunit import Undecided
        raise Undecided('T4 let_closure_contract: no `let %s = |..| ..;`' % name)
    j = mm.end()
    while j < len(text):
        if m[j] == rs.CODE:
            c = text[j]
            if c in '([{':
                j = rs.match_close(text, m, j) + 1
                continue
            if c == ';':
                break
        j += 1
    body = text[mm.end():j]
    new = '%s -> (__t4_r: bool)\n    ensures\n        //#post:%s\n        %s\n{ %s }' % (text[mm.start():mm.end()], label, spec, body.strip())
    return text[:mm.start()] + new + text[j:], 'let_closure_contract: closure `%s` given the contract `%s`' % (name, spec[:140])


def let_init(text, var, newexpr):
    """`let VAR = INIT;`  ==>  `let VAR = NEWEXPR;`: the initializer (an iterator chain Verus cannot ingest) is replaced by a call
    of a shim whose contract is an ASSUMPTION stated in the unit; the statement is otherwise unchanged."""
    m = rs.mask(text)
    hits = list(rs.find_code(text, m, r'\blet\s+(?:mut\s+)?' + re.escape(var) + r'\b[^=;]*=', 0, len(text)))
    if not hits:
        from vunit import Undecided
        raise Undecided('T4 let_init: no `let %s = ..`' % var)
    s, e, mm = hits[0]
    j = e
    d = 0
    while j < len(text):
        if m[j] == rs.CODE:
            c = text[j]
            if c in '([{':
                j = rs.match_close(text, m, j) + 1
                continue
            if c == ';':
                break
        j += 1
    init = text[e:j]
    clean = rs.norm_ws(re.sub(TAG, '', init))
    return text[:e] + ' ' + newexpr + text[j:], 'let_init: `let %s = %s` ==> `%s` (assumed contract)' % (var, clean[:160], newexpr)


def const_array(text):
    """`const N: &[T] = &[e1, .., en];`  ==>  `const N: [T; n] = [e1, .., en];` (Verus has no exec array-to-slice coercion in a const);
    n is counted from the initializer, so dropping or adding an element stays visible to every contract that mentions N."""
    m = rs.mask(text)
    mm = re.search(r'(?:const|static)\s+(\w+)\s*:\s*&\s*(?:\'static\s+)?\[([^\]]+)\]\s*=(?:\s|\x01T?\d+\x01)*&\s*\[', text)
    if not mm:
        from vunit import Undecided
        raise Undecided('T4 const_array: not a `const|static N: &[T] = &[..]` item')
    ob = mm.end() - 1
    cb = rs.match_close(text, m, ob)
    inner = text[ob + 1:cb]
    n = 0
    d = 0
    cur = ''
    for i_, c_ in enumerate(inner):
        if m[ob + 1 + i_] != rs.CODE:
            cur += c_
            continue
        if c_ in '([{':
            d += 1
        elif c_ in ')]}':
            d -= 1
        if c_ == ',' and d == 0:
            if re.sub(TAG, '', cur).strip():
                n += 1
            cur = ''
        else:
            cur += c_
    if re.sub(TAG, '', cur).strip():
        n += 1
    vis = ''
    ety = re.sub(r"&\s*(?!')", "&'static ", mm.group(2).strip())
    new = 'const %s: [%s; %d] = [%s]' % (mm.group(1), ety, n, inner)
    return text[:mm.start()] + new + text[cb + 1:], 'const_array: `const %s: &[%s]` with %d elements kept as an array' % (mm.group(1), mm.group(2).strip(), n)


def _stmt_start(text, m, pos):
    """start of the statement that contains position `pos`: scan backwards over code, skipping balanced groups, up to the
    previous `;`, `{` or `}` that is not inside a group closed before `pos`"""
    j = pos - 1
    while j >= 0:
        if m[j] != rs.CODE:
            j -= 1
            continue
        c = text[j]
        if c in ')]':
            d = 0
            while j >= 0:
                if m[j] == rs.CODE:
                    if text[j] in ')]}':
                        d += 1
                    elif text[j] in '([{':
                        d -= 1
                        if d == 0:
                            break
                j -= 1
            j -= 1
            continue
        if c in ';{}':
            return j + 1
        j -= 1
    return 0


def closure_contract(text, k, name, label, params, spec):
    """k-th closure literal passed as a call argument:  `CALL(.., |p, q| B, ..)`  ==>
    `let NAME = |PARAMS| -> (__t4_r: bool) ensures //#post:LABEL SPEC { B }; CALL(.., NAME, ..)`.
    The closure is bound to a name before the statement that uses it (creating a closure has no effect) and given a
    contract: typed parameters PARAMS and postcondition SPEC come from the template, and Verus checks SPEC against the
    closure's real body B. The callee's contract can then speak about its calls of the closure."""
    m = rs.mask(text)
    hits = []
    for s_, e_, mm in rs.find_code(text, m, r'[(,](?:\s|' + TAG + r'|//[^\n]*\n)*(?:move\s+)?\|', 0, len(text)):
        hits.append(e_ - 1)
    if len(hits) <= k:
        from vunit import Undecided
        raise Undecided('T4 closure_contract #%d not found' % k)
    bar = hits[k]
    bar2 = text.index('|', bar + 1)
    orig_params = rs.norm_ws(text[bar + 1:bar2])
    j = bar2 + 1
    while j < len(text):
        if m[j] == rs.CODE:
            c = text[j]
            if c in '([{':
                j = rs.match_close(text, m, j) + 1
                continue
            if c in ',)':
                break
        j += 1
    body = text[bar2 + 1:j]
    st = _stmt_start(text, m, bar)
    closure = '|%s| -> (__t4_r: bool)\n    ensures\n        //#post:%s\n        %s\n{ %s }' % (params, label, spec, body.strip())
    new = text[:st] + '\nlet %s = %s;' % (name, closure) + text[st:bar] + name + text[j:]
    return new, 'closure_contract #%d: closure |%s| bound to `%s` before its call, parameters typed |%s|, contract `%s`' % (
        k, orig_params, name, params, spec[:140])


def guard_to_if(text, k):
    """k-th match arm with a guard and a block body, `PAT if G => { BODY }` directly followed by the final wildcard arm
    `_ => W` (W a block-free expression): ==> `PAT => if G { BODY } else { W }`. When PAT matches and G fails, Rust falls
    through to the following arms; with only the wildcard following, that is W. (This Verus loses the frame of a `&mut`
    borrowed inside a guarded arm on the fall-through path.) Anything else between the two arms: undecided."""
    m = rs.mask(text)
    WS = r'(?:\s|' + TAG + r')*'
    hits = list(rs.find_code(text, m, r'\bif\b[^{};]*?=>' + WS + r'\{', 0, len(text)))
    if len(hits) <= k:
        from vunit import Undecided
        raise Undecided('T4 guard_to_if #%d: no guarded arm with a block body' % k)
    s_, e_, mm = hits[k]
    ob = e_ - 1
    cb = rs.match_close(text, m, ob)
    arrow = text.rindex('=>', s_, e_)
    guard = text[s_ + 2:arrow].strip()
    body = text[ob:cb + 1]
    mm2 = re.compile(WS + r',?' + WS + r'_' + WS + r'=>' + WS + r'([^{},;]+?)' + WS + r',?' + WS + r'\}').match(text, cb + 1)
    if not mm2:
        from vunit import Undecided
        raise Undecided('T4 guard_to_if #%d: the guarded arm is not directly followed by a final `_ => expr` arm' % k)
    w = mm2.group(1).strip()
    new = '=> if %s %s else { %s }' % (guard, body, w)
    return text[:s_] + new + text[cb + 1:], 'guard_to_if #%d: guard `%s` moved into the arm, falling through to the wildcard value `%s`' % (k, rs.norm_ws(re.sub(TAG, '', guard)), w)


def split_or_guard(text):
    """`Ctor(A | B) if G => { BODY }`  ==>  `Ctor(A) if G => { BODY } Ctor(B) if G => { BODY }` for every such arm
    (Verus does not support an or-pattern together with a match guard; the alternatives bind nothing)."""
    n = 0
    pos = 0
    while True:
        m = rs.mask(text)
        hit = None
        for s_, e_, mm in rs.find_code(text, m, r'(\w+)\(([^()|]+?)\s*\|\s*([^()|]+?)\)\s+if\b', pos, len(text)):
            hit = (s_, e_, mm)
            break
        if not hit:
            break
        s_, e_, mm = hit
        # guard runs to '=>' at depth 0
        j = e_
        d = 0
        while j < len(text):
            if m[j] == rs.CODE:
                if text[j] in '([{':
                    d += 1
                elif text[j] in ')]}':
                    d -= 1
                elif d == 0 and text.startswith('=>', j):
                    break
            j += 1
        guard = text[e_:j]
        k = j + 2
        while text[k].isspace() or text[k] == '\x01' or text[k].isdigit() or text[k] == 'T':
            if text[k] == '\x01':
                k = text.index('\x01', k + 1)
            k += 1
        if text[k] != '{':
            raise T4Error('split_or_guard: arm body is not a block')
        close = rs.match_close(text, m, k)
        body = text[k:close + 1]
        ctor, a, b = mm.group(1), mm.group(2), mm.group(3)
        new = '%s(%s) if%s=> %s\n%s(%s) if%s=> %s' % (ctor, a, guard, body, ctor, b, guard, body)
        text = text[:s_] + new + text[close + 1:]
        pos = s_ + len(new)
        n += 1
    return text, n


def count_sites(text, kind):
    m = rs.mask(text)
    WS = r'(?:\s|\x01T?\d+\x01)*'
    return len(list(rs.find_code(text, m, SITES[kind].replace(r'\s*', WS), 0, len(text))))


def apply(text, args):
    kind = args[0]
    k = int(args[1]) if len(args) > 1 else 0
    if kind not in SITES:
        raise T4Error('unknown T4 kind %s' % kind)
    m = rs.mask(text)
    WS = r'(?:\s|\x01T?\d+\x01)*'
    hits = list(rs.find_code(text, m, SITES[kind].replace(r'\s*', WS), 0, len(text)))
    if len(hits) <= k:
        from vunit import Undecided
        raise Undecided('T4 site %s #%d not found' % (kind, k))
    s, e, mm = hits[k]
    rstart = _receiver_start(text, m, s)
    recv = text[rstart:s]
    recv_clean = re.sub('\x01T?\\d+\x01', '', recv).strip()
    if kind == 'entry_or_insert_with':
        # M.entry(K).or_insert_with(|| D)  ==>  M.entry_or_insert(K, D): one shim with the std-documented contract of the pair
        # (a reference to the existing value, or to D inserted under K). D is evaluated eagerly: it must be an expression
        # without effects (checked syntactically: no `&mut`, assignment, macro, loop, `return` or `?`; every call in it is to a
        # function Verus checks, whose shims are pure).
        close = rs.match_close(text, m, e - 1)
        key = text[e:close]
        mm2 = re.compile(WS + r'\.' + WS + r'or_insert_with' + WS + r'\(').match(text, close + 1)
        if not mm2:
            from vunit import Undecided
            raise Undecided('T4 entry_or_insert_with #%d: `.entry(..)` is not followed by `.or_insert_with(`' % k)
        pat, body, close2 = _closure(text, m, mm2.end() - 1)
        if pat:
            raise T4Error('or_insert_with closure takes no parameter')
        clean_body = re.sub('\x01T?\\d+\x01', '', body)
        if re.search(r'&\s*mut\b|[^=!<>]=[^=]|\w+!\s*[\(\[{]|\bloop\b|\bwhile\b|\breturn\b|\?', clean_body):
            raise T4Error('or_insert_with default is not an effect-free expression: %s' % rs.norm_ws(clean_body)[:80])
        new = '%s.entry_or_insert(%s, %s)' % (recv.rstrip(), key.strip(), body.strip())
        return text[:rstart] + new + text[close2 + 1:], 'entry_or_insert_with #%d: `%s`.entry(%s).or_insert_with(|| %s)' % (k, recv_clean, rs.norm_ws(key), rs.norm_ws(re.sub('\x01T?\\d+\x01', '', body)))
    if kind == 'is_some_and_fn':
        # X.is_some_and(f) with `f` a closure bound to a name  ==>  match X { Some(v) => f(v), None => false }
        fname = re.search(r'\(\s*([a-z_]\w*)\s*\)$', text[s:e]).group(1)
        new = '(match %s { Some(__t4_v) => %s(__t4_v), None => false })' % (recv.strip(), fname)
        return text[:rstart] + new + text[e:], 'is_some_and_fn #%d: `%s`.is_some_and(%s)' % (k, recv_clean, fname)
    if kind == 'map_err_opaque':
        # X.map_err(F): the error value is irrelevant to every contract -> opaque error of the unit
        close = rs.match_close(text, m, e - 1)
        rstart = _receiver_start(text, m, s)
        recv = text[rstart:s]
        new = '(match %s { Ok(__t4_v) => Ok(__t4_v), Err(_) => Err(vp_opaque_error()) })' % (recv.strip(),)
        return text[:rstart] + new + text[close + 1:], 'map_err_opaque #%d: `%s`.map_err(%s)' % (k, rs.norm_ws(recv)[:60], rs.norm_ws(text[e:close])[:60])
    if kind == 'unwrap_or_ref':
        # X.unwrap_or(D)  ==>  match X { Some(v) => v, None => D }   (vstd's spec of unwrap_or is for owned values)
        close = rs.match_close(text, m, e - 1)
        rstart = _receiver_start(text, m, s)
        recv = text[rstart:s]
        new = '(match %s { Some(__t4_v) => __t4_v, None => %s })' % (recv.strip(), text[e:close].strip())
        return text[:rstart] + new + text[close + 1:], 'unwrap_or #%d: `%s`.unwrap_or(..)' % (k, rs.norm_ws(recv)[:60])
    if kind == 'map_or':
        # X.map_or(D, |p| B)  ==>  match X { Some(p) => B, None => D }
        close = rs.match_close(text, m, e - 1)
        inner = text[e:close]
        d_ = 0
        cut = None
        for i_, c_ in enumerate(inner):
            if c_ in '([{':
                d_ += 1
            elif c_ in ')]}':
                d_ -= 1
            elif c_ == ',' and d_ == 0:
                cut = i_
                break
        dflt = inner[:cut].strip()
        mm2 = re.match(r'\s*\|([^|]*)\|\s*(.*)$', inner[cut + 1:], re.S)
        rstart = _receiver_start(text, m, s)
        recv = text[rstart:s]
        new = '(match %s { Some(%s) => %s, None => %s })' % (recv.strip(), mm2.group(1).strip(), mm2.group(2).strip().rstrip(','), dflt)
        return text[:rstart] + new + text[close + 1:], 'map_or #%d: `%s`.map_or(%s, |%s| ..)' % (k, rs.norm_ws(recv), dflt, mm2.group(1).strip())
    if kind == 'assert_macro':
        # assert!(C);  ==>  if !(C) { vp_str::vp_panic(); }   where vp_panic() requires false: "the assertion cannot fire"
        close = rs.match_close(text, m, e - 1)
        return text[:s] + 'if !(%s) { vp_str::vp_panic(); }' % text[e:close].strip() + text[close + 1:], 'assert_macro #%d: assert!(%s) as a call whose precondition is `false` on the failing branch' % (k, rs.norm_ws(text[e:close])[:80])
    if kind == 'format_opaque':
        close = rs.match_close(text, m, e - 1)
        return text[:s] + 'vp_auth::opaque_error_message()' + text[close + 1:], 'format_opaque #%d: format!(..) error message replaced by an opaque String' % k
    if kind == 'find_next':
        # RECV.find(|x| P) on an iterator value: `while let Some(x) = it.next() { if P { return Some(x) } } None`
        s = s + 1
        dot = s + text[s:].index('.')
        rstart = _receiver_start(text, m, dot)
        recv = text[rstart:dot]
        pat, body, close = _closure(text, m, e - 1)
        new = ('{ let mut __t4_it = %s; let mut __t4_found = None; let mut __t4_done: bool = false;\n'
               'while __t4_found.is_none() && !__t4_done {\n'
               'match __t4_it.next() { Some(__t4_x) => { let %s = &__t4_x; if (%s) { __t4_found = Some(__t4_x); } } None => { __t4_done = true; } }\n'
               '}\n'
               '__t4_found }') % (recv.strip(), pat, body)
        return text[:rstart] + new + text[close + 1:], 'find_next #%d: `%s`.find(|%s| ..)' % (k, rs.norm_ws(re.sub('\x01T?\\d+\x01', '', recv)), pat)
    if kind == 'any_next':
        # RECV.any(|x| P) on an iterator value: std-documented loop `while let Some(x) = it.next() { if P { return true } } false`
        s = s + 1  # the regex starts at the ')' that ends the receiver
        rstart = _receiver_start(text, m, s + text[s:].index('.'))
        dot = s + text[s:].index('.')
        recv = text[rstart:dot]
        pat, body, close = _closure(text, m, e - 1)
        new = ('{ let mut __t4_it = %s; let mut __t4_hit: bool = false; let mut __t4_done: bool = false;\n'
               'while !__t4_hit && !__t4_done {\n'
               'match __t4_it.next() { Some(%s) => { if (%s) { __t4_hit = true; } } None => { __t4_done = true; } }\n'
               '}\n'
               '__t4_hit }') % (recv.strip(), pat, body)
        return text[:rstart] + new + text[close + 1:], 'any_next #%d: `%s`.any(|%s| ..)' % (k, rs.norm_ws(re.sub('\x01T?\\d+\x01', '', recv)), pat)
    if kind == 'opt_map_ctor':
        ctor = re.search(r'\(\s*([A-Z]\w*(?:::\w+)+)\s*\)$', text[s:e]).group(1)
        new = '(match %s { Some(__t4_v) => Some(%s(__t4_v)), None => None })' % (recv.strip(), ctor)
        return text[:rstart] + new + text[e:], '%s #%d: `%s`.map(%s)' % (kind, k, recv_clean, ctor)
    pat, body, close = _closure(text, m, e - 1)
    uid = '%s%d' % (kind, k)
    if kind in ('bytes_all', 'bytes_any'):
        stop_if = '!(%s)' % body if kind == 'bytes_all' else '(%s)' % body
        init = 'true' if kind == 'bytes_all' else 'false'
        # result variable is "no stopping byte found" for all / "stopping byte found" for any
        new = ('{ let __t4_s: &str = &%s; let __t4_b = __t4_s.as_bytes(); let mut __t4_i: usize = 0; let mut __t4_hit: bool = false;\n'
               'while !__t4_hit && __t4_i < __t4_b.len() {\n'
               'let %s = __t4_b[__t4_i];\n'
               'if %s { __t4_hit = true; } else { __t4_i += 1; }\n'
               '}\n'
               '%s__t4_hit }') % (recv.strip(), pat, stop_if, '!' if kind == 'bytes_all' else '')
    elif kind == 'chars_all':
        # RECV.chars().all(|c| P): loop over the characters (vstd: unicode_len / get_char), stop at the first !(P)
        new = ('{ let __t4_s: &str = &%s; let __t4_n = __t4_s.unicode_len(); let mut __t4_i: usize = 0; let mut __t4_hit: bool = false;\n'
               'while !__t4_hit && __t4_i < __t4_n {\n'
               'let %s = __t4_s.get_char(__t4_i);\n'
               'if !(%s) { __t4_hit = true; } else { __t4_i += 1; }\n'
               '}\n'
               '!__t4_hit }') % (recv.strip(), pat, body)
    elif kind in ('iter_all', 'iter_any'):
        stop_if = '!(%s)' % body if kind == 'iter_all' else '(%s)' % body
        new = ('{ let __t4_v = &%s; let mut __t4_i: usize = 0; let mut __t4_hit: bool = false;\n'
               'while !__t4_hit && __t4_i < __t4_v.len() {\n'
               'let %s = &__t4_v[__t4_i];\n'
               'if %s { __t4_hit = true; } else { __t4_i += 1; }\n'
               '}\n'
               '%s__t4_hit }') % (recv.strip(), pat, stop_if, '!' if kind == 'iter_all' else '')
    elif kind == 'is_some_and':
        new = '(match %s { Some(%s) => %s, None => false })' % (recv.strip(), pat, body)
    elif kind == 'and_then':
        if pat.startswith('&'):
            # `|&x| B`: Verus has no reference patterns; bind the reference and copy out of it
            new = '(match %s { Some(__t4_p) => { let %s = *__t4_p; %s }, None => None })' % (recv.strip(), pat[1:].strip(), body)
        else:
            new = '(match %s { Some(%s) => %s, None => None })' % (recv.strip(), pat, body)
    elif kind == 'opt_map':
        new = '(match %s { Some(%s) => Some(%s), None => None })' % (recv.strip(), pat, body)
    elif kind == 'res_map':
        new = '(match %s { Ok(%s) => Ok(%s), Err(__t4_e) => Err(__t4_e) })' % (recv.strip(), pat, body)
    elif kind == 'bool_then':
        if pat:
            raise T4Error('then closure takes no parameter')
        new = '(if %s { Some(%s) } else { None })' % (recv.strip(), body)
    elif kind == 'is_ok_and':
        new = '(match %s { Ok(%s) => %s, Err(_) => false })' % (recv.strip(), pat, body)
    elif kind == 'is_none_or':
        new = '(match %s { Some(%s) => %s, None => true })' % (recv.strip(), pat, body)
    elif kind == 'or_else':
        if pat:
            raise T4Error('or_else closure takes no parameter')
        new = '(match %s { Some(__t4_v) => Some(__t4_v), None => %s })' % (recv.strip(), body)
    elif kind == 'unwrap_or_else':
        if pat:
            raise T4Error('unwrap_or_else with parameter not supported')
        new = '(match %s { Some(__t4_v) => __t4_v, None => %s })' % (recv.strip(), body)
    elif kind == 'ok_or_else':
        if pat:
            raise T4Error('ok_or_else closure takes no parameter')
        new = '(match %s { Some(__t4_v) => Ok(__t4_v), None => Err(%s) })' % (recv.strip(), body)
    elif kind == 'map_err_fmt':
        # the error value is a formatted message: its text is irrelevant to every contract, so the
        # message construction is replaced by an opaque String
        if not re.match(r'(?:\s|\x01T?\d+\x01)*format!', body):
            raise T4Error('map_err_fmt: closure body is not format!(..)')
        new = '(match %s { Ok(__t4_v) => Ok(__t4_v), Err(_) => Err(vp_auth::opaque_error_message()) })' % (recv.strip(),)
    elif kind == 'map_err_const':
        new = '(match %s { Ok(__t4_v) => Ok(__t4_v), Err(%s) => Err(%s) })' % (recv.strip(), pat, body)
    text = text[:rstart] + new + text[close + 1:]
    note = '%s #%d: `%s` %s(|%s| %s)' % (kind, k, recv_clean, kind, pat, rs.norm_ws(re.sub('\x01T?\\d+\x01', '', body)))
    return text, note
