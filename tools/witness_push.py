"""Executable reading of units/push.vrs specs (placement semantics of C13) + operation-sequence
generator. The model is a list of [id, enabled, default, nactions] per kind."""
import itertools
import json
import random

KINDS = ['override', 'underride', 'content', 'room', 'sender']


def model_apply(state, op):
    name, kind, rid = op[0], op[1], op[2]
    if kind not in state:
        return 'err'
    s = state[kind]
    ids = [r[0] for r in s]
    if name == 'insert':
        after, before = op[3], op[4]
        if rid.startswith('.') or '/' in rid or '\\' in rid:
            return 'err'
        if (after is not None and after.startswith('.')) or (before is not None and before.startswith('.')):
            return 'err'
        if after is not None and after not in ids:
            return 'err'
        if before is not None and before not in ids:
            return 'err'
        if after is not None and before is not None and not ids.index(after) < ids.index(before):
            return 'err'
        existed = rid in ids
        oi = ids.index(rid) if existed else None
        enabled = s[oi][1] if existed else 1
        base = [r for r in s if r[0] != rid]
        bids = [r[0] for r in base]
        if before is not None:
            p = oi if before == rid else bids.index(before)
        elif after is not None:
            p = oi if after == rid else bids.index(after) + 1
        elif existed:
            p = oi
        else:
            dflt = 1 if kind == 'override' else 0
            p = min(dflt, len(base))
        base.insert(p, [rid, enabled, 0, 1])
        state[kind] = base
        return 'ok'
    if rid not in ids:
        return 'err'
    i = ids.index(rid)
    if name == 'remove':
        if s[i][2]:
            return 'err'
        del s[i]
        return 'ok'
    if name == 'enable':
        s[i][1] = 1 if op[3] else 0
        return 'ok'
    if name == 'actions':
        s[i][3] = 0
        return 'ok'
    return 'err'


def fmt(state):
    return {k: ['%s:%d:%d:%d' % tuple(r) for r in state[k]] for k in KINDS}


def parse(detail):
    st = {}
    for k in KINDS:
        st[k] = []
        for x in detail[k]:
            rid, e, d, n = x.rsplit(':', 3)
            st[k].append([rid, int(e), int(d), int(n)])
    return st


_default_state = None


def start_state(start, run_batch):
    global _default_state
    if start == 'empty':
        return {k: [] for k in KINDS}
    if _default_state is None:
        r = run_batch([['push.ops', 'default', '[]']])[0]
        _default_state = parse(r['detail'])
    return json.loads(json.dumps(_default_state))


def judge_with(start_st, ops, res):
    if res['outcome'] == 'panic':
        return 'panic: ' + res.get('detail', '')[:200]
    st = json.loads(json.dumps(start_st))
    want = []
    for op in ops:
        before = json.dumps(st)
        r = model_apply(st, op)
        if r == 'err':
            assert json.dumps(st) == before
        want.append(r)
    got = res['detail']['results']
    for i, (w, g) in enumerate(zip(want, got)):
        if g == 'skip':
            return None
        if (g == 'ok') != (w == 'ok'):
            return 'operation #%d %s returned %s, placement semantics say %s' % (i, json.dumps(ops[i]), g, w)
    f = fmt(st)
    for k in KINDS:
        if res['detail'][k] != f[k]:
            return 'order/flags of kind %s are %s, placement semantics say %s' % (k, res['detail'][k], f[k])
    return None


def judge(case, args, res):
    import witness
    st = start_state(args[0], witness.run_batch)
    return judge_with(st, json.loads(args[1]), res)


IDS = {'override': ['a', 'b', 'c'], 'underride': ['a', 'b', 'c'], 'content': ['a', 'b', 'c'],
       'room': ['!a:s', '!b:s', '!c:s'], 'sender': ['@a:s', '@b:s', '@c:s']}


def gen_ops(kind, rnd, n, default_ids):
    ids = IDS[kind]
    anchors = ids + [None, None] + default_ids[:2] + ['zz']
    ops = []
    for _ in range(n):
        c = rnd.random()
        rid = rnd.choice(ids + ['.m.rule.x', 'a/b'] if c > 0.9 else ids)
        if c < 0.6:
            ops.append(['insert', kind, rid, rnd.choice(anchors), rnd.choice(anchors)])
        elif c < 0.75:
            ops.append(['remove', kind, rnd.choice(ids + default_ids[:1])])
        elif c < 0.9:
            ops.append(['enable', kind, rnd.choice(ids + default_ids[:1]), rnd.random() < 0.5])
        else:
            ops.append(['actions', kind, rnd.choice(ids)])
    return ops


def search(obligation, tier, seed, run_batch):
    rnd = random.Random(seed)
    seqs = []
    # exhaustive: all sequences of up to 3 inserts over 3 ids x anchors {none, other ids} in one kind
    for kind in KINDS:
        ids = IDS[kind]
        anchors = [None] + ids
        single = [['insert', kind, i, a, b] for i in ids for a in anchors for b in anchors]
        for a in single:
            seqs.append(('empty', [a]))
        pre = [['insert', kind, ids[0], None, None], ['insert', kind, ids[1], None, None], ['insert', kind, ids[2], None, None]]
        for a in single:
            seqs.append(('empty', pre + [a]))
            seqs.append(('empty', pre[:2] + [a]))
        for i in ids:
            seqs.append(('empty', pre + [['remove', kind, i]]))
            seqs.append(('empty', pre + [['enable', kind, i, False], ['insert', kind, i, None, None]]))
            seqs.append(('empty', pre + [['actions', kind, i]]))
    n_rand = 3000 if tier == 'thorough' else 400
    dstate = start_state('default', run_batch)
    for _ in range(n_rand):
        kind = rnd.choice(KINDS)
        start = rnd.choice(['empty', 'default'])
        dids = [r[0] for r in dstate[kind]] if start == 'default' else []
        seqs.append((start, gen_ops(kind, rnd, rnd.randint(1, 8), dids)))
    res = run_batch([['push.ops', s, json.dumps(o)] for s, o in seqs])
    for (s, o), r in zip(seqs, res):
        st = start_state(s, run_batch)
        why = judge_with(st, o, r)
        if why:
            return {'case': 'push.ops', 'args': [s, json.dumps(o)], 'observed': r, 'expected': why}
    return None
