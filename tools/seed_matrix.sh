#!/bin/bash
# seed_matrix.sh [ids...]: applies every confirmed seeded mutation under seeded/<id>/<m>/patch.diff to /repo's working
# tree (never committed), runs `check <id>`, records exit code and the reported obligations, and restores the tree.
# ONLY="C04/m6 C05/m6" restricts the run to those seeds (other lines of RESULTS.tsv are kept).
# Output: seeded/RESULTS.tsv (one line per seed).  Development aid; not registered in MANIFEST.json.
cd /verif
if [ -n "$(git -C /repo status --porcelain)" ]; then echo "/repo not clean"; exit 2; fi
IDS=${@:-$(ls seeded | grep '^C')}
OUT=seeded/RESULTS.tsv
TMP=$(mktemp)
for id in $IDS; do
  for m in $(ls seeded/$id 2>/dev/null); do
    if [ -n "${ONLY:-}" ] && [ "$m" != "$ONLY" ] && ! echo " $ONLY " | grep -q " $id/$m "; then continue; fi
    P=seeded/$id/$m/patch.diff
    [ -f $P ] || continue
    if ! git -C /repo apply --check /verif/$P 2>/dev/null; then echo -e "$id\t$m\tpatch-does-not-apply\t-" >> $TMP; continue; fi
    git -C /repo apply /verif/$P
    LOG=$(./check $id 2>&1); RC=$?
    git -C /repo checkout -- . ; git -C /repo clean -fdq -- crates
    OB=$(echo "$LOG" | grep "failed obligation:" | sed 's/.*failed obligation: //' | tr '\n' ' ')
    UND=$(echo "$LOG" | grep "UNDECIDED" | head -1 | cut -c1-160)
    echo -e "$id\t$m\trc=$RC\t$OB$UND" >> $TMP
    echo "$id $m rc=$RC"
  done
done
if [ -n "${ONLY:-}" ]; then
  cat $TMP; cp $OUT $TMP.2
  while IFS=$'\t' read -r a b rest; do grep -v -P "^$a\t$b\t" $TMP.2 > $TMP.3; mv $TMP.3 $TMP.2; done < $TMP
  cat $TMP.2 $TMP | sort > $OUT; rm -f $TMP $TMP.2
elif [ $# -eq 0 ]; then mv $TMP $OUT; else cat $TMP; grep -v -E "^($(echo $IDS | tr ' ' '|'))\s" $OUT > $TMP.2 2>/dev/null; cat $TMP.2 $TMP | sort > $OUT; rm -f $TMP $TMP.2; fi
