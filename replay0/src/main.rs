//! usage: replay0 <words> <default_ruleset|event_match>
//! Evaluates push rules on an m.room.message whose body has <words> words, each beginning with the display name / the
//! pattern, on a thread with a 2 MiB stack. Exit status 0: returned; anything else: panic or abort (stack overflow).
use ruma_common::{
    push::{FlattenedJson, PushCondition, PushConditionRoomCtx, Ruleset},
    serde::Raw,
    OwnedRoomId, OwnedUserId,
};
use serde_json::json;

fn main() {
    let args: Vec<String> = std::env::args().skip(1).collect();
    let words: usize = args[0].parse().unwrap();
    let what = args[1].clone();
    let body = "bobb ".repeat(words);
    let h = std::thread::Builder::new()
        .stack_size(2 * 1024 * 1024)
        .spawn(move || {
            let user = OwnedUserId::try_from("@bob:s.org").unwrap();
            let ctx = PushConditionRoomCtx {
                room_id: OwnedRoomId::try_from("!r:s.org").unwrap(),
                member_count: 3u32.into(),
                user_id: user.clone(),
                user_display_name: "bob".to_owned(),
                power_levels: None,
            };
            let raw: Raw<serde_json::Value> =
                Raw::new(&json!({"type": "m.room.message", "sender": "@o:s.org", "room_id": "!r:s.org", "content": {"msgtype": "m.text", "body": body}})).unwrap();
            match what.as_str() {
                "default_ruleset" => {
                    let _ = Ruleset::server_default(&user).get_actions(&raw, &ctx).len();
                }
                _ => {
                    let flat = FlattenedJson::from_raw(&raw);
                    let _ = PushCondition::EventMatch { key: "content.body".to_owned(), pattern: "bob".to_owned() }.applies(&flat, &ctx);
                    let _ = PushCondition::EventMatch { key: "content.body".to_owned(), pattern: "b?b".to_owned() }.applies(&flat, &ctx);
                }
            }
        })
        .unwrap();
    std::process::exit(if h.join().is_ok() { 0 } else { 3 });
}
