// ---------------------------------------------------------------------------
// TRUSTED PRELUDE for unit sig (ruma-signatures). Every item is an assumption:
// BTreeMap<String, V> as a map keyed by the key's characters; serde_json::to_string on a
// canonical object as an uninterpreted function `canon`; SHA-256, base64 and Ed25519 as
// uninterpreted functions; redaction (ruma-common, unit redact/redact_enum) as an uninterpreted
// function; error values as an opaque enum.
// ---------------------------------------------------------------------------
pub mod vp_sig {
    use super::*;
    use vstd::prelude::*;
    use vstd::string::*;

    pub broadcast axiom fn ax_str_ext_view(a: &str, b: &str)
        ensures (#[trigger] a@ == #[trigger] b@) ==> a == b;

    // ---- errors ---------------------------------------------------------------------------
    pub enum ErrKind { Json, Verification, Parse, Redaction }
    pub enum Error { PduSize, Other(ErrKind) }
    pub struct JsonError;
    impl JsonError {
        #[verifier::external_body]
        pub fn not_of_type(target: &str, of_type: JsonType) -> (r: Error) ensures r == Error::Other(ErrKind::Json) { unimplemented!() }
        #[verifier::external_body]
        pub fn not_multiples_of_type(target: &str, of_type: JsonType) -> (r: Error) ensures r == Error::Other(ErrKind::Json) { unimplemented!() }
        #[verifier::external_body]
        pub fn field_missing_from_object(target: &str) -> (r: Error) ensures r == Error::Other(ErrKind::Json) { unimplemented!() }
    }
    #[verifier::external_body]
    pub fn opaque_error(k: ErrKind) -> (r: Error) ensures r == Error::Other(k) { unimplemented!() }

    // ---- JSON values -------------------------------------------------------------------------
    #[verifier::external_body] pub struct Int { _p: i64 }

    #[verifier::external_body]
    #[verifier::accept_recursive_types(V)]
    pub struct JsonMap<V> { _p: Vec<V> }

    impl<V> JsonMap<V> {
        pub uninterp spec fn view(&self) -> Map<Seq<char>, V>;
        pub uninterp spec fn keys_spec(&self) -> Seq<&String>;

        #[verifier::external_body]
        pub fn get(&self, k: &str) -> (r: Option<&V>)
            ensures r.is_some() == self.view().contains_key(k@), r.is_some() ==> *r.unwrap() == self.view()[k@],
        { unimplemented!() }

        #[verifier::external_body]
        pub fn contains_key(&self, k: &str) -> (r: bool) ensures r == self.view().contains_key(k@) { unimplemented!() }

        #[verifier::external_body]
        pub fn remove(&mut self, k: &str) -> (r: Option<V>)
            ensures final(self).view() == old(self).view().remove(k@),
                r.is_some() == old(self).view().contains_key(k@), r.is_some() ==> r.unwrap() == old(self).view()[k@],
        { unimplemented!() }

        #[verifier::external_body]
        pub fn insert(&mut self, k: String, v: V) -> (r: Option<V>)
            ensures final(self).view() == old(self).view().insert(k@, v),
        { unimplemented!() }

        /// keys in ascending order as an indexable sequence (stands for `.keys()` iteration)
        #[verifier::external_body]
        pub fn keys(&self) -> (r: Vec<&String>)
            ensures
                r@ == self.keys_spec(),
                forall|i: int| 0 <= i < r@.len() ==> self.view().contains_key(#[trigger] r@[i]@),
                forall|k: Seq<char>| self.view().contains_key(k) ==> exists|i: int| 0 <= i < r@.len() && #[trigger] r@[i]@ == k,
                forall|i: int, j: int| 0 <= i < j < r@.len() ==> r@[i]@ != r@[j]@,
        { unimplemented!() }
    }
    impl<V> JsonMap<V> {
        /// (key, value) pairs in ascending key order (stands for iterating `&BTreeMap<String, V>`)
        #[verifier::external_body]
        pub fn entries(&self) -> (r: Vec<(&String, &V)>)
            ensures
                forall|i: int| 0 <= i < r@.len() ==> self.view().contains_key((#[trigger] r@[i]).0@) && *r@[i].1 == self.view()[r@[i].0@],
                forall|k: Seq<char>| self.view().contains_key(k) ==> exists|i: int| 0 <= i < r@.len() && (#[trigger] r@[i]).0@ == k,
        { unimplemented!() }
    }
    impl<V> JsonMap<V> {
        /// `BTreeMap::new()`
        #[verifier::external_body]
        pub fn new() -> (r: Self) ensures r.view() == Map::<Seq<char>, V>::empty() { unimplemented!() }
        #[verifier::external_body]
        pub fn remove_entry(&mut self, k: &str) -> (r: Option<(String, V)>)
            ensures final(self).view() == old(self).view().remove(k@),
                r.is_some() == old(self).view().contains_key(k@),
                r.is_some() ==> r.unwrap().0@ == k@ && r.unwrap().1 == old(self).view()[k@],
        { unimplemented!() }
        /// `self.entry(k).or_insert_with(|| default)` (T4 entry_or_insert_with): a reference to the value under `k`, which is
        /// the existing one or `default` inserted; whatever the caller writes through it is the map's value under `k` afterwards
        #[verifier::external_body]
        pub fn entry_or_insert(&mut self, k: String, default: V) -> (r: &mut V)
            ensures
                *r == (if old(self).view().contains_key(k@) { old(self).view()[k@] } else { default }),
                final(self).view() == old(self).view().insert(k@, *final(r)),
        { unimplemented!() }
        /// `retain(|key, _| key == K)` (T-rename): only the entry under K, if any, stays
        #[verifier::external_body]
        pub fn retain_only_key(&mut self, k: &str)
            ensures
                forall|x: Seq<char>| #[trigger] final(self).view().contains_key(x) == (x == k@ && old(self).view().contains_key(x)),
                old(self).view().contains_key(k@) ==> final(self).view()[k@] == old(self).view()[k@],
                // (a consequence of the first clause, stated so that callers need no quantifier instantiation)
                final(self).is_empty_spec() == !old(self).view().contains_key(k@),
        { unimplemented!() }
        pub open spec fn is_empty_spec(&self) -> bool { forall|x: Seq<char>| !self.view().contains_key(x) }
        #[verifier::external_body]
        pub fn is_empty(&self) -> (r: bool)
            ensures r == self.is_empty_spec(),
        { unimplemented!() }
        /// `get_mut`: only the value read through the reference is specified (the one caller reads it and drops the map)
        #[verifier::external_body]
        pub fn get_mut(&mut self, k: &str) -> (r: Option<&mut V>)
            ensures r.is_some() == old(self).view().contains_key(k@), r.is_some() ==> *r.unwrap() == old(self).view()[k@],
        { unimplemented!() }
    }
    impl<V: Clone> Clone for JsonMap<V> {
        #[verifier::external_body]
        fn clone(&self) -> (r: Self) ensures r.view() == self.view() { unimplemented!() }
    }

    // ---- uninterpreted dependencies ------------------------------------------------------------
    /// serde_json::to_string of a canonical object (compact, sorted keys): result bytes / failure
    pub uninterp spec fn canon_ok<V>(m: Map<Seq<char>, V>) -> bool;
    pub uninterp spec fn canon<V>(m: Map<Seq<char>, V>) -> Seq<char>;
    /// UTF-8 encoding of a string
    pub uninterp spec fn utf8(s: Seq<char>) -> Seq<u8>;
    pub assume_specification [ String::len ] (s: &String) -> (r: usize)
        ensures r == utf8(s@).len();
    pub assume_specification [ String::as_bytes ] (s: &String) -> (r: &[u8])
        ensures r@ == utf8(s@);
    pub uninterp spec fn sha256(b: Seq<u8>) -> Seq<u8>;
    pub uninterp spec fn b64_encode(url_safe: bool, b: Seq<u8>) -> Seq<char>;
    /// Base64::<Standard>::parse
    pub uninterp spec fn b64_decode(s: Seq<char>) -> Option<Seq<u8>>;
    /// Ed25519 verification of `sig` over `msg` under `pk` (incl. key/signature length checks)
    pub uninterp spec fn sig_valid(pk: Seq<u8>, sig: Seq<u8>, msg: Seq<u8>) -> bool;

    #[verifier::external_body]
    pub fn to_json_string<V>(m: &JsonMap<V>) -> (r: Result<String, SerdeError>)
        ensures r.is_ok() == canon_ok(m.view()), r.is_ok() ==> r->Ok_0@ == canon(m.view()),
    { unimplemented!() }
    #[verifier::external_body] pub struct SerdeError { _p: u8 }

    /// Sha256::digest + conversion to [u8; 32]
    #[verifier::external_body] pub struct Digest32 { _p: [u8; 32] }
    impl Digest32 { pub uninterp spec fn view(&self) -> Seq<u8>; }
    pub struct Sha256;
    impl Sha256 {
        #[verifier::external_body]
        pub fn digest(b: &[u8]) -> (r: Digest32) ensures r.view() == sha256(b@) { unimplemented!() }
    }
}
