// TRUSTED PRELUDE: std functions without a vstd specification (contracts from the std documentation)
pub mod vp_std {
    use vstd::prelude::*;
    pub assume_specification<T> [ Option::<T>::or ] (a: Option<T>, b: Option<T>) -> (r: Option<T>)
        ensures r == (if a.is_some() { a } else { b });
    pub assume_specification<T, U> [ Option::<T>::and ] (a: Option<T>, b: Option<U>) -> (r: Option<U>)
        ensures r == (if a.is_some() { b } else { None });
    pub assume_specification<'a, T: Copy> [ Option::<&'a T>::copied ] (a: Option<&'a T>) -> (r: Option<T>)
        ensures r == (match a { Some(x) => Some(*x), None => None });
    pub assume_specification<T> [ Option::<T>::xor ] (a: Option<T>, b: Option<T>) -> (r: Option<T>)
        ensures r == (if a.is_some() && b.is_none() { a } else if a.is_none() && b.is_some() { b } else { None });
}
