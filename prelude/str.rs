// ---------------------------------------------------------------------------
// TRUSTED PRELUDE (every item here is an assumption, listed in evidence):
// contracts for the std string functions the extracted ruma code calls and for
// which vstd ships no specification. Byte-level view: `s.spec_bytes()`.
// ---------------------------------------------------------------------------
pub mod vp_str {
    /// stands for the panic of `assert!` / `unreachable!()`: calling it is a proof obligation that the call is unreachable
    #[verifier::external_body]
    pub fn vp_panic() requires false { unimplemented!() }

    use super::*;
    use vstd::prelude::*;
    use vstd::string::*;
    use vstd::utf8::is_char_boundary;

    // a str is at most isize::MAX bytes (Rust allocation invariant)
    pub broadcast axiom fn ax_str_len_bound(s: &str)
        ensures #[trigger] s.spec_bytes().len() <= isize::MAX;

    // str values with the same bytes are equal (needed for `match s { "lit" => .. }`)
    pub broadcast axiom fn ax_str_ext(a: &str, b: &str)
        ensures (#[trigger] a.spec_bytes() == #[trigger] b.spec_bytes()) ==> a == b;
    pub broadcast axiom fn ax_str_ext_view(a: &str, b: &str)
        ensures (#[trigger] a@ == #[trigger] b@) ==> a == b;

    // `&s[range]`: vstd gives the precondition (char boundaries) but no postcondition
    pub assume_specification<I: core::slice::SliceIndex<str>> [ <str as core::ops::Index<I>>::index ] (s: &str, i: I) -> (r: &<I as core::slice::SliceIndex<str>>::Output)
        ensures vstd::slice::SliceIndexSpec::index_postcondition(&i, s, r);

    // UTF-8 fact: an ASCII byte is never a continuation byte, so positions before and after it
    // are char boundaries.
    pub broadcast axiom fn ax_ascii_boundary(s: &str, i: int)
        requires 0 <= i < s.spec_bytes().len(), #[trigger] s.spec_bytes()[i] < 128,
        ensures is_char_boundary(s.spec_bytes(), i), is_char_boundary(s.spec_bytes(), i + 1);

    pub open spec fn first_idx(s: Seq<u8>, c: u8) -> Option<int>
        decreases s.len()
    {
        if s.len() == 0 { None } else if s[0] == c { Some(0int) } else {
            match first_idx(s.subrange(1, s.len() as int), c) { Some(i) => Some(i + 1), None => None }
        }
    }

    pub open spec fn has_byte(s: Seq<u8>, c: u8) -> bool {
        exists|j: int| 0 <= j < s.len() && s[j] == c
    }

    pub open spec fn is_prefix(p: Seq<u8>, s: Seq<u8>) -> bool {
        p.len() <= s.len() && s.subrange(0, p.len() as int) == p
    }

    // ---- str::find(char) for an ASCII char: index of the first such byte
    pub uninterp spec fn str_find_spec<P>(s: &str, p: P) -> Option<usize>;

    #[verifier::allow(undeclared_external_trait)]
    pub assume_specification<P: core::str::pattern::Pattern> [ str::find::<P> ] (s: &str, p: P) -> (r: Option<usize>)
        ensures r == str_find_spec(s, p);

    pub broadcast axiom fn ax_find_char(s: &str, c: char)
        requires (c as u32) < 128,
        ensures
            match #[trigger] str_find_spec::<char>(s, c) {
                Some(i) => i < s.spec_bytes().len() && s.spec_bytes()[i as int] == c as u8
                    && forall|j: int| 0 <= j < i ==> s.spec_bytes()[j] != c as u8,
                None => forall|j: int| 0 <= j < s.spec_bytes().len() ==> s.spec_bytes()[j] != c as u8,
            };

    // ---- str::contains
    pub uninterp spec fn str_contains_spec<P>(s: &str, p: P) -> bool;

    #[verifier::allow(undeclared_external_trait)]
    pub assume_specification<P: core::str::pattern::Pattern> [ str::contains::<P> ] (s: &str, p: P) -> (r: bool)
        ensures r == str_contains_spec(s, p);

    pub broadcast axiom fn ax_contains_char(s: &str, c: char)
        requires (c as u32) < 128,
        ensures #[trigger] str_contains_spec::<char>(s, c) == has_byte(s.spec_bytes(), c as u8);

    pub broadcast axiom fn ax_contains_char2(s: &str, cs: [char; 2])
        requires (cs[0] as u32) < 128, (cs[1] as u32) < 128,
        ensures #[trigger] str_contains_spec::<[char; 2]>(s, cs)
            == (has_byte(s.spec_bytes(), cs[0] as u8) || has_byte(s.spec_bytes(), cs[1] as u8));

    // ---- str::starts_with
    pub uninterp spec fn str_starts_with_spec<P>(s: &str, p: P) -> bool;

    #[verifier::allow(undeclared_external_trait)]
    pub assume_specification<P: core::str::pattern::Pattern> [ str::starts_with::<P> ] (s: &str, p: P) -> (r: bool)
        ensures r == str_starts_with_spec(s, p);

    pub broadcast axiom fn ax_starts_with_char(s: &str, c: char)
        requires (c as u32) < 128,
        ensures #[trigger] str_starts_with_spec::<char>(s, c)
            == (s.spec_bytes().len() > 0 && s.spec_bytes()[0] == c as u8);

    pub broadcast axiom fn ax_starts_with_str(s: &str, p: &str)
        ensures #[trigger] str_starts_with_spec::<&str>(s, p) == is_prefix(p.spec_bytes(), s.spec_bytes());

    // ---- str::strip_prefix(&str)
    pub uninterp spec fn str_strip_prefix_spec<'a, P>(s: &'a str, p: P) -> Option<&'a str>;

    #[verifier::allow(undeclared_external_trait)]
    pub assume_specification<'a, P: core::str::pattern::Pattern> [ str::strip_prefix::<P> ] (s: &'a str, p: P) -> (r: Option<&'a str>)
        ensures r == str_strip_prefix_spec(s, p);

    pub broadcast axiom fn ax_strip_prefix_str<'a>(s: &'a str, p: &str)
        ensures
            match #[trigger] str_strip_prefix_spec::<&str>(s, p) {
                Some(rest) => is_prefix(p.spec_bytes(), s.spec_bytes())
                    && rest.spec_bytes() == s.spec_bytes().subrange(p.spec_bytes().len() as int, s.spec_bytes().len() as int),
                None => !is_prefix(p.spec_bytes(), s.spec_bytes()),
            };

    // ---- str::parse::<u16>() : std-documented grammar `'+'? digit+` with value <= 65535
    pub open spec fn is_digit(b: u8) -> bool { 48 <= b <= 57 }

    pub open spec fn all_digits(s: Seq<u8>) -> bool {
        forall|j: int| 0 <= j < s.len() ==> is_digit(#[trigger] s[j])
    }

    pub open spec fn dec_value(s: Seq<u8>) -> nat
        decreases s.len()
    {
        if s.len() == 0 { 0 } else { (dec_value(s.drop_last()) * 10 + (s.last() - 48) as nat) as nat }
    }

    pub open spec fn u16_parse_ok(s: Seq<u8>) -> bool {
        let d = if s.len() > 0 && s[0] == 43 { s.subrange(1, s.len() as int) } else { s };
        d.len() > 0 && all_digits(d) && dec_value(d) <= 65535
    }

    pub uninterp spec fn ipv6_parse_ok(s: Seq<u8>) -> bool;

    #[verifier::external_type_specification]
    #[verifier::external_body]
    pub struct ExParseIntError(core::num::ParseIntError);
    #[verifier::external_type_specification]
    #[verifier::external_body]
    pub struct ExAddrParseError(core::net::AddrParseError);
    #[verifier::external_type_specification]
    #[verifier::external_body]
    pub struct ExIpv6Addr(core::net::Ipv6Addr);
    #[verifier::external_type_specification]
    #[verifier::external_body]
    pub struct ExIpv4Addr(core::net::Ipv4Addr);

    #[verifier::external_trait_specification]
    pub trait ExFromStr: Sized {
        type ExternalTraitSpecificationFor: core::str::FromStr;
        type Err;
        fn from_str(s: &str) -> Result<Self, Self::Err>;
    }

    pub uninterp spec fn str_parse_spec<F: core::str::FromStr>(s: &str) -> Result<F, F::Err>;

    pub assume_specification<F: core::str::FromStr> [ str::parse::<F> ] (s: &str) -> (r: Result<F, F::Err>)
        ensures r == str_parse_spec::<F>(s);

    pub broadcast axiom fn ax_parse_u16(s: &str)
        ensures (#[trigger] str_parse_spec::<u16>(s)).is_ok() == u16_parse_ok(s.spec_bytes());

    /// std-documented: the value of a successfully parsed plain digit string is its decimal value
    pub broadcast axiom fn ax_parse_u16_value(s: &str)
        ensures (#[trigger] str_parse_spec::<u16>(s)).is_ok() && all_digits(s.spec_bytes())
            ==> str_parse_spec::<u16>(s)->Ok_0 as nat == dec_value(s.spec_bytes());

    pub broadcast axiom fn ax_parse_ipv6(s: &str)
        ensures (#[trigger] str_parse_spec::<core::net::Ipv6Addr>(s)).is_ok() == ipv6_parse_ok(s.spec_bytes());

    // ---- u8 classification
    pub open spec fn is_ascii_alnum(b: u8) -> bool {
        (48 <= b <= 57) || (65 <= b <= 90) || (97 <= b <= 122)
    }

    pub assume_specification [ u8::is_ascii_alphanumeric ] (b: &u8) -> (r: bool)
        ensures r == is_ascii_alnum(*b);

    pub assume_specification [ u8::is_ascii_digit ] (b: &u8) -> (r: bool)
        ensures r == is_digit(*b);

    // ---- [T]::first / contains
    pub assume_specification<T: PartialEq> [ <[T]>::contains ] (s: &[T], x: &T) -> (r: bool)
        ensures r == slice_contains_spec(s@, *x);

    pub uninterp spec fn slice_contains_spec<T>(s: Seq<T>, x: T) -> bool;

    pub broadcast axiom fn ax_slice_contains_u8(s: Seq<u8>, x: u8)
        ensures #[trigger] slice_contains_spec(s, x) == has_byte(s, x);

    pub broadcast group group_vp_str {
        ax_str_len_bound, ax_str_ext, ax_str_ext_view, ax_ascii_boundary, ax_find_char, ax_contains_char, ax_contains_char2,
        ax_starts_with_char, ax_starts_with_str, ax_strip_prefix_str, ax_parse_u16, ax_parse_u16_value, ax_parse_ipv6, ax_slice_contains_u8,
    }
}
