// ---------------------------------------------------------------------------
// TRUSTED PRELUDE for unit auth (ruma-state-res event authorization).
// Everything here is an ASSUMPTION about code outside the unit: identifier types, js_int::Int,
// the `Event` trait surface, and the serde-based content accessors of the event wrappers
// (events/{create,member,join_rules,power_levels,third_party_invite}.rs), which are given
// uninterpreted specification functions: JSON decoding is NOT verified.
// ---------------------------------------------------------------------------
pub mod vp_auth {
    use super::*;
    use vstd::prelude::*;
    use std::ops::Deref;

    // str values with equal views are equal (string-literal and key comparisons)
    pub broadcast axiom fn ax_str_ext_view(a: &str, b: &str)
        ensures (#[trigger] a@ == #[trigger] b@) ==> a == b;

    /// some &str with the given characters (exists: every Seq<char> is the view of a string)
    pub uninterp spec fn str_of(k: Seq<char>) -> &'static str;
    pub broadcast axiom fn ax_str_of(k: Seq<char>)
        ensures #[trigger] str_of(k)@ == k;

    pub broadcast group group_vp_auth { ax_str_ext_view, ax_str_of, ax_owned_user, ax_int_ext, ax_owned_of, ax_owned_of_view }

    /// stands for `format!(..)` error messages (their text is not part of any contract)
    #[verifier::external_body]
    pub fn opaque_error_message() -> String { unimplemented!() }

    // ---- identifiers -------------------------------------------------------------------------
    #[verifier::external_body] pub struct UserId { _p: u8 }
    #[verifier::external_body] pub struct OwnedUserId { _p: u8 }
    #[verifier::external_body] pub struct CowUserId<'a> { _p: &'a u8 }
    #[verifier::external_body] pub struct ServerName { _p: u8 }
    #[verifier::external_body] pub struct EventId { _p: u8 }
    #[verifier::external_body] pub struct RoomId { _p: u8 }

    pub uninterp spec fn server_of_user(u: Seq<char>) -> Seq<char>;
    pub uninterp spec fn server_of_event_id(e: Seq<char>) -> Option<Seq<char>>;
    pub uninterp spec fn server_of_room_id(e: Seq<char>) -> Option<Seq<char>>;
    pub uninterp spec fn parse_user_id(s: Seq<char>) -> bool;

    impl UserId {
        pub uninterp spec fn view(&self) -> Seq<char>;
        #[verifier::external_body]
        pub fn as_str(&self) -> (r: &str) ensures r@ == self.view() { unimplemented!() }
        #[verifier::external_body]
        pub fn server_name(&self) -> (r: &ServerName) ensures r.view() == server_of_user(self.view()) { unimplemented!() }
        #[verifier::external_body]
        pub fn to_string(&self) -> (r: String) ensures r@ == self.view() { unimplemented!() }
        /// `<&UserId>::try_from(&str)`: succeeds iff the string parses as a user id; the value is the string
        #[verifier::external_body]
        pub fn try_from_str<'a>(s: &'a str) -> (r: Result<&'a UserId, IdParseError>)
            ensures r.is_ok() == parse_user_id(s@), r.is_ok() ==> r->Ok_0.view() == s@,
        { unimplemented!() }
    }
    pub struct IdParseError;
    impl vstd::std_specs::cmp::PartialEqSpecImpl for UserId {
        open spec fn obeys_eq_spec() -> bool { true }
        open spec fn eq_spec(&self, other: &UserId) -> bool { self.view() == other.view() }
    }
    impl PartialEq for UserId {
        #[verifier::external_body]
        fn eq(&self, other: &Self) -> (r: bool) { unimplemented!() }
    }
    impl vstd::std_specs::cmp::PartialEqSpecImpl<str> for UserId {
        open spec fn obeys_eq_spec() -> bool { true }
        open spec fn eq_spec(&self, other: &str) -> bool { self.view() == other@ }
    }
    impl PartialEq<str> for UserId {
        #[verifier::external_body]
        fn eq(&self, other: &str) -> (r: bool) { unimplemented!() }
    }
    impl OwnedUserId {
        pub uninterp spec fn view(&self) -> Seq<char>;
        pub uninterp spec fn as_user(&self) -> &UserId;
        #[verifier::external_body]
        pub fn to_string(&self) -> (r: String) ensures r@ == self.view() { unimplemented!() }
    }
    impl vstd::std_specs::cmp::PartialEqSpecImpl<UserId> for OwnedUserId {
        open spec fn obeys_eq_spec() -> bool { true }
        open spec fn eq_spec(&self, other: &UserId) -> bool { self.view() == other.view() }
    }
    impl PartialEq<UserId> for OwnedUserId {
        #[verifier::external_body]
        fn eq(&self, other: &UserId) -> (r: bool) { unimplemented!() }
    }
    /// the owned user id spelled `s` (TRUSTED: an OwnedUserId is determined by its spelling)
    pub uninterp spec fn owned_of(s: Seq<char>) -> OwnedUserId;
    pub broadcast axiom fn ax_owned_of(o: OwnedUserId)
        ensures #[trigger] owned_of(o.view()) == o;
    pub broadcast axiom fn ax_owned_of_view(s: Seq<char>)
        ensures #[trigger] owned_of(s).view() == s;
    pub broadcast axiom fn ax_owned_user(o: &OwnedUserId)
        ensures #[trigger] o.as_user().view() == o.view();
    impl Deref for OwnedUserId {
        type Target = UserId;
        #[verifier::external_body]
        fn deref(&self) -> (r: &UserId) ensures r == self.as_user() { unimplemented!() }
    }
    impl<'a> CowUserId<'a> {
        pub uninterp spec fn as_user(&self) -> &UserId;
    }
    impl<'a> Deref for CowUserId<'a> {
        type Target = UserId;
        #[verifier::external_body]
        fn deref(&self) -> (r: &UserId) ensures r == self.as_user() { unimplemented!() }
    }
    impl ServerName {
        pub uninterp spec fn view(&self) -> Seq<char>;
        #[verifier::external_body]
        pub fn as_str(&self) -> (r: &str) ensures r@ == self.view() { unimplemented!() }
    }
    impl vstd::std_specs::cmp::PartialEqSpecImpl for ServerName {
        open spec fn obeys_eq_spec() -> bool { true }
        open spec fn eq_spec(&self, other: &ServerName) -> bool { self.view() == other.view() }
    }
    impl PartialEq for ServerName {
        #[verifier::external_body]
        fn eq(&self, other: &Self) -> (r: bool) { unimplemented!() }
    }
    impl EventId {
        pub uninterp spec fn view(&self) -> Seq<char>;
        #[verifier::external_body]
        pub fn server_name(&self) -> (r: Option<&ServerName>)
            ensures r.is_some() == server_of_event_id(self.view()).is_some(),
                r.is_some() ==> r.unwrap().view() == server_of_event_id(self.view()).unwrap(),
        { unimplemented!() }
    }
    impl vstd::std_specs::cmp::PartialEqSpecImpl for EventId {
        open spec fn obeys_eq_spec() -> bool { true }
        open spec fn eq_spec(&self, other: &EventId) -> bool { self.view() == other.view() }
    }
    impl PartialEq for EventId {
        #[verifier::external_body]
        fn eq(&self, other: &Self) -> (r: bool) { unimplemented!() }
    }
    impl RoomId {
        pub uninterp spec fn view(&self) -> Seq<char>;
        #[verifier::external_body]
        pub fn server_name(&self) -> (r: Option<&ServerName>)
            ensures r.is_some() == server_of_room_id(self.view()).is_some(),
                r.is_some() ==> r.unwrap().view() == server_of_room_id(self.view()).unwrap(),
        { unimplemented!() }
    }

    // ---- js_int::Int as a mathematical integer (its range is irrelevant: only comparisons are used) ----
    #[verifier::external_body] pub struct Int { _p: i64 }
    impl Int { pub uninterp spec fn view(&self) -> int; }
    impl Clone for Int {
        #[verifier::external_body]
        fn clone(&self) -> (r: Self) ensures r == *self { unimplemented!() }
    }
    impl Copy for Int {}
    pub broadcast axiom fn ax_int_ext(a: Int, b: Int)
        ensures (#[trigger] a.view() == #[trigger] b.view()) ==> a == b;
    impl vstd::std_specs::cmp::PartialEqSpecImpl for Int {
        open spec fn obeys_eq_spec() -> bool { true }
        open spec fn eq_spec(&self, other: &Int) -> bool { self.view() == other.view() }
    }
    impl PartialEq for Int {
        #[verifier::external_body]
        fn eq(&self, other: &Self) -> (r: bool) { unimplemented!() }
    }
    impl vstd::std_specs::cmp::PartialOrdSpecImpl for Int {
        open spec fn obeys_partial_cmp_spec() -> bool { true }
        open spec fn partial_cmp_spec(&self, other: &Int) -> Option<core::cmp::Ordering> {
            if self.view() < other.view() { Some(core::cmp::Ordering::Less) }
            else if self.view() == other.view() { Some(core::cmp::Ordering::Equal) }
            else { Some(core::cmp::Ordering::Greater) }
        }
    }
    impl PartialOrd for Int {
        #[verifier::external_body]
        fn partial_cmp(&self, other: &Self) -> (r: Option<core::cmp::Ordering>) { unimplemented!() }
    }
    #[verifier::external_body]
    pub fn int_from_i64(v: i64) -> (r: Int) ensures r.view() == v { unimplemented!() }

    // ---- std::collections::BTreeMap<K, V> as a finite map (TRUSTED model: `get` is lookup; key identity is the
    //      key type's equality, which for the key types used here is the identity of the spelled key) ----------
    #[verifier::external_body]
    #[verifier::accept_recursive_types(K)]
    #[verifier::accept_recursive_types(V)]
    pub struct BTreeMap<K, V> { _p: Vec<(K, V)> }
    /// `Q` may be used to look up a key of type `K` (std: `K: Borrow<Q>`); `key` is the key it denotes
    pub trait KeyOf<K> { spec fn key(&self) -> K; }
    impl<K> KeyOf<K> for K { open spec fn key(&self) -> K { *self } }
    impl KeyOf<OwnedUserId> for UserId { open spec fn key(&self) -> OwnedUserId { owned_of(self.view()) } }
    impl<K, V> BTreeMap<K, V> {
        pub uninterp spec fn view(&self) -> Map<K, V>;
        #[verifier::external_body]
        pub fn get<Q: KeyOf<K>>(&self, k: &Q) -> (r: Option<&V>)
            ensures r.is_some() == self.view().contains_key(k.key()), r.is_some() ==> *r.unwrap() == self.view()[k.key()],
        { unimplemented!() }
    }
    pub open spec fn omap<K, V>(m: Option<&BTreeMap<K, V>>) -> Map<K, V> {
        match m { Some(m) => m.view(), None => Map::empty() }
    }
    /// ASSUMED contract of `a.iter().flat_map(|m| m.keys()).chain(b.iter().flat_map(|m| m.keys())).collect::<BTreeSet<_>>()`
    /// followed by iteration: every key of either map, and only those (order and multiplicity are irrelevant to the caller)
    #[verifier::external_body]
    pub fn keys_of_both<'a, K>(a: Option<&'a BTreeMap<K, Int>>, b: Option<&'a BTreeMap<K, Int>>) -> (r: Vec<&'a K>)
        ensures
            forall|i: int| 0 <= i < r@.len() ==> omap(a).contains_key(*#[trigger] r@[i]) || omap(b).contains_key(*r@[i]),
            forall|k: K| omap(a).contains_key(k) || omap(b).contains_key(k) ==> exists|i: int| 0 <= i < r@.len() && *#[trigger] r@[i] == k,
    { unimplemented!() }

    // ---- enums of ruma-events (shape assumption: the variants the rules distinguish) ----------
    pub enum MembershipState { Ban, Invite, Join, Knock, Leave, _Custom }
    impl vstd::std_specs::cmp::PartialEqSpecImpl for MembershipState {
        open spec fn obeys_eq_spec() -> bool { true }
        open spec fn eq_spec(&self, other: &MembershipState) -> bool { *self == *other }
    }
    impl PartialEq for MembershipState {
        #[verifier::external_body]
        fn eq(&self, other: &Self) -> (r: bool) { unimplemented!() }
    }
    pub enum StateEventType { RoomCreate, RoomMember, RoomPowerLevels, RoomJoinRules, RoomThirdPartyInvite, _Other(Seq<char>) }
    impl vstd::std_specs::cmp::PartialEqSpecImpl for StateEventType {
        open spec fn obeys_eq_spec() -> bool { true }
        open spec fn eq_spec(&self, other: &StateEventType) -> bool { *self == *other }
    }
    impl PartialEq for StateEventType {
        #[verifier::external_body]
        fn eq(&self, other: &Self) -> (r: bool) { unimplemented!() }
    }
    pub enum TimelineEventType { RoomCreate, RoomMember, RoomPowerLevels, RoomJoinRules, RoomThirdPartyInvite, RoomAliases, RoomRedaction, _Other(Seq<char>) }
    impl vstd::std_specs::cmp::PartialEqSpecImpl for TimelineEventType {
        open spec fn obeys_eq_spec() -> bool { true }
        open spec fn eq_spec(&self, other: &TimelineEventType) -> bool { *self == *other }
    }
    impl PartialEq for TimelineEventType {
        #[verifier::external_body]
        fn eq(&self, other: &Self) -> (r: bool) { unimplemented!() }
    }

    // ---- the Event trait surface used by the authorization rules --------------------------------
    pub trait EvId {
        spec fn spec_event_id(&self) -> Seq<char>;
        fn borrow(&self) -> (r: &EventId) ensures r.view() == self.spec_event_id();
    }

    /// stand-in for `Box<dyn DoubleEndedIterator<Item = &Id>>`: a cursor over a ghost sequence
    #[verifier::external_body]
    #[verifier::accept_recursive_types(I)]
    pub struct IdIter<'a, I> { _p: &'a I }
    impl<'a, I> IdIter<'a, I> {
        pub uninterp spec fn seq(&self) -> Seq<&'a I>;
        pub uninterp spec fn pos(&self) -> int;
        #[verifier::external_body]
        pub fn next(&mut self) -> (r: Option<&'a I>)
            requires 0 <= old(self).pos() <= old(self).seq().len(),
            ensures
                final(self).seq() == old(self).seq(),
                old(self).pos() < old(self).seq().len() ==> r == Some(old(self).seq()[old(self).pos()]) && final(self).pos() == old(self).pos() + 1,
                old(self).pos() >= old(self).seq().len() ==> r.is_none() && final(self).pos() == old(self).pos(),
        { unimplemented!() }
    }

    pub trait Event {
        type Id: EvId;
        spec fn spec_event_id(&self) -> &Self::Id;
        spec fn spec_room_id(&self) -> &RoomId;
        spec fn spec_sender(&self) -> &UserId;
        spec fn spec_event_type(&self) -> &TimelineEventType;
        spec fn spec_state_key(&self) -> Option<&str>;
        spec fn spec_prev_events(&self) -> Seq<&Self::Id>;
        spec fn spec_auth_events(&self) -> Seq<&Self::Id>;
        spec fn spec_redacts(&self) -> Option<&Self::Id>;

        fn event_id(&self) -> (r: &Self::Id) ensures r == self.spec_event_id();
        fn room_id(&self) -> (r: &RoomId) ensures r == self.spec_room_id();
        fn sender(&self) -> (r: &UserId) ensures r == self.spec_sender();
        fn event_type(&self) -> (r: &TimelineEventType) ensures r == self.spec_event_type();
        fn state_key(&self) -> (r: Option<&str>) ensures r == self.spec_state_key();
        fn prev_events(&self) -> (r: IdIter<'_, Self::Id>) ensures r.seq() == self.spec_prev_events(), r.pos() == 0;
        fn auth_events(&self) -> (r: IdIter<'_, Self::Id>) ensures r.seq() == self.spec_auth_events(), r.pos() == 0;
        fn redacts(&self) -> (r: Option<&Self::Id>) ensures r == self.spec_redacts();
    }

    // ---- typed wrappers and their serde-based content accessors (ASSUMED) ----------------------
    #[verifier::external_body]
    #[verifier::accept_recursive_types(E)]
    pub struct RoomCreateEvent<E: Event>(E);
    impl<E: Event> RoomCreateEvent<E> {
        pub uninterp spec fn inner(&self) -> &E;
        #[verifier::external_body]
        pub fn new(event: E) -> (r: Self) ensures *r.inner() == event { unimplemented!() }
    }
    impl<E: Event> Deref for RoomCreateEvent<E> {
        type Target = E;
        #[verifier::external_body]
        fn deref(&self) -> (r: &E) ensures r == self.inner() { unimplemented!() }
    }
    #[verifier::external_body]
    #[verifier::accept_recursive_types(E)]
    pub struct RoomMemberEvent<E: Event>(E);
    impl<E: Event> RoomMemberEvent<E> {
        pub uninterp spec fn inner(&self) -> &E;
        #[verifier::external_body]
        pub fn new(event: E) -> (r: Self) ensures *r.inner() == event { unimplemented!() }
    }
    impl<E: Event> Deref for RoomMemberEvent<E> {
        type Target = E;
        #[verifier::external_body]
        fn deref(&self) -> (r: &E) ensures r == self.inner() { unimplemented!() }
    }
    #[verifier::external_body]
    #[verifier::accept_recursive_types(E)]
    pub struct RoomPowerLevelsEvent<E: Event>(E);
    impl<E: Event> RoomPowerLevelsEvent<E> {
        pub uninterp spec fn inner(&self) -> &E;
        #[verifier::external_body]
        pub fn new(event: E) -> (r: Self) ensures *r.inner() == event { unimplemented!() }
    }
    impl<E: Event> Deref for RoomPowerLevelsEvent<E> {
        type Target = E;
        #[verifier::external_body]
        fn deref(&self) -> (r: &E) ensures r == self.inner() { unimplemented!() }
    }
    #[verifier::external_body]
    #[verifier::accept_recursive_types(E)]
    pub struct RoomJoinRulesEvent<E: Event>(E);
    impl<E: Event> RoomJoinRulesEvent<E> {
        pub uninterp spec fn inner(&self) -> &E;
        #[verifier::external_body]
        pub fn new(event: E) -> (r: Self) ensures *r.inner() == event { unimplemented!() }
    }
    impl<E: Event> Deref for RoomJoinRulesEvent<E> {
        type Target = E;
        #[verifier::external_body]
        fn deref(&self) -> (r: &E) ensures r == self.inner() { unimplemented!() }
    }
    #[verifier::external_body]
    #[verifier::accept_recursive_types(E)]
    pub struct RoomThirdPartyInviteEvent<E: Event>(E);
    impl<E: Event> RoomThirdPartyInviteEvent<E> {
        pub uninterp spec fn inner(&self) -> &E;
        #[verifier::external_body]
        pub fn new(event: E) -> (r: Self) ensures *r.inner() == event { unimplemented!() }
    }
    impl<E: Event> Deref for RoomThirdPartyInviteEvent<E> {
        type Target = E;
        #[verifier::external_body]
        fn deref(&self) -> (r: &E) ensures r == self.inner() { unimplemented!() }
    }
}
