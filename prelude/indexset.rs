// ---------------------------------------------------------------------------
// TRUSTED PRELUDE: abstract model of indexmap::IndexSet<T> as used by ruma's push rules:
// an insertion-ordered sequence of values with unique keys, where the key of a value is
// `rule_key(v)` and a `&str` is `Equivalent` to a value iff it equals that key (this is how the
// three `impl Equivalent<..PushRule> for str` in push.rs are written: `self == key.rule_id`).
// Each method contract transcribes the indexmap 2.x documentation. Every item is an assumption.
// ---------------------------------------------------------------------------
pub mod vp_indexset {
    use super::*;
    use vstd::prelude::*;

    pub uninterp spec fn rule_key<T>(t: T) -> Seq<char>;

    #[verifier::external_body]
    #[verifier::accept_recursive_types(T)]
    pub struct IndexSet<T> { v: Vec<T> }

    pub open spec fn seq_wf<T>(s: Seq<T>) -> bool {
        forall|i: int, j: int| 0 <= i < j < s.len() ==> rule_key(s[i]) != rule_key(s[j])
    }

    pub open spec fn has_key<T>(s: Seq<T>, k: Seq<char>) -> bool {
        exists|i: int| 0 <= i < s.len() && rule_key(#[trigger] s[i]) == k
    }

    pub open spec fn index_of<T>(s: Seq<T>, k: Seq<char>) -> int {
        choose|i: int| 0 <= i < s.len() && rule_key(#[trigger] s[i]) == k
    }

    impl<T> IndexSet<T> {
        pub uninterp spec fn view(&self) -> Seq<T>;

        /// type invariant of IndexSet: keys are unique and the length fits in usize
        pub open spec fn wf(&self) -> bool { seq_wf(self.view()) && self.view().len() <= usize::MAX }

        #[verifier::external_body]
        pub fn len(&self) -> (r: usize)
            requires self.wf(),
            ensures r == self.view().len(),
        { unimplemented!() }

        #[verifier::external_body]
        pub fn first(&self) -> (r: Option<&T>)
            requires self.wf(),
            ensures r.is_some() == (self.view().len() > 0), r.is_some() ==> *r.unwrap() == self.view()[0],
        { unimplemented!() }

        #[verifier::external_body]
        pub fn is_empty(&self) -> (r: bool)
            requires self.wf(),
            ensures r == (self.view().len() == 0),
        { unimplemented!() }

        /// "Adds a value to the set, replacing the existing value, if any, that is equal to the given one,
        /// without altering its insertion order. Returns the index of the item and its replaced value."
        #[verifier::external_body]
        pub fn replace_full(&mut self, value: T) -> (r: (usize, Option<T>))
            requires old(self).wf(),
            ensures
                final(self).wf(),
                has_key(old(self).view(), rule_key(value)) ==> {
                    let i = index_of(old(self).view(), rule_key(value));
                    r.0 == i && r.1 == Some(old(self).view()[i]) && final(self).view() == old(self).view().update(i, value)
                },
                !has_key(old(self).view(), rule_key(value)) ==>
                    r.0 == old(self).view().len() && r.1.is_none() && final(self).view() == old(self).view().push(value),
        { unimplemented!() }

        #[verifier::external_body]
        pub fn replace(&mut self, value: T) -> (r: Option<T>)
            requires old(self).wf(),
            ensures
                final(self).wf(),
                has_key(old(self).view(), rule_key(value)) ==> {
                    let i = index_of(old(self).view(), rule_key(value));
                    r == Some(old(self).view()[i]) && final(self).view() == old(self).view().update(i, value)
                },
                !has_key(old(self).view(), rule_key(value)) ==>
                    r.is_none() && final(self).view() == old(self).view().push(value),
        { unimplemented!() }

        #[verifier::external_body]
        pub fn get_index_of(&self, k: &str) -> (r: Option<usize>)
            requires self.wf(),
            ensures
                r.is_some() == has_key(self.view(), k@),
                r.is_some() ==> r.unwrap() == index_of(self.view(), k@),
        { unimplemented!() }

        #[verifier::external_body]
        pub fn get(&self, k: &str) -> (r: Option<&T>)
            requires self.wf(),
            ensures
                r.is_some() == has_key(self.view(), k@),
                r.is_some() ==> *r.unwrap() == self.view()[index_of(self.view(), k@)],
        { unimplemented!() }

        /// "Moves the position of a value from one index to another by shifting all other values in-between.
        /// Panics if from or to are out of bounds."
        #[verifier::external_body]
        pub fn move_index(&mut self, from: usize, to: usize)
            requires old(self).wf(), from < old(self).view().len(), to < old(self).view().len(),
            ensures
                final(self).view() == old(self).view().remove(from as int).insert(to as int, old(self).view()[from as int]),
                final(self).wf(),
        { unimplemented!() }

        /// "Remove the value from the set ... by shifting all of the elements that follow it, preserving
        /// their relative order. Return false if value was not in the set."
        #[verifier::external_body]
        pub fn shift_remove(&mut self, k: &str) -> (r: bool)
            requires old(self).wf(),
            ensures
                final(self).wf(),
                r == has_key(old(self).view(), k@),
                r ==> final(self).view() == old(self).view().remove(index_of(old(self).view(), k@)),
                !r ==> final(self).view() == old(self).view(),
        { unimplemented!() }

        /// "Remove the value from the set ... by swapping it with the last element of the set and popping it
        /// off. This perturbs the position of what used to be the last element!"
        #[verifier::external_body]
        pub fn swap_remove(&mut self, k: &str) -> (r: bool)
            requires old(self).wf(),
            ensures
                final(self).wf(),
                r == has_key(old(self).view(), k@),
                r ==> ({
                    let i = index_of(old(self).view(), k@);
                    let n = old(self).view().len() as int;
                    final(self).view() == (if i == n - 1 { old(self).view().drop_last() } else { old(self).view().update(i, old(self).view()[n - 1]).drop_last() })
                }),
                !r ==> final(self).view() == old(self).view(),
        { unimplemented!() }
    }

    // facts about index_of on well-formed sequences
    pub proof fn lemma_index_of<T>(s: Seq<T>, i: int)
        requires seq_wf(s), 0 <= i < s.len(),
        ensures has_key(s, rule_key(s[i])), index_of(s, rule_key(s[i])) == i,
    {
        let k = rule_key(s[i]);
        assert(0 <= i < s.len() && rule_key(s[i]) == k);
        let j = index_of(s, k);
        assert(0 <= j < s.len() && rule_key(s[j]) == k);
        if i < j { assert(rule_key(s[i]) != rule_key(s[j])); }
        if j < i { assert(rule_key(s[j]) != rule_key(s[i])); }
    }

    pub proof fn lemma_index_of_props<T>(s: Seq<T>, k: Seq<char>)
        requires has_key(s, k),
        ensures 0 <= index_of(s, k) < s.len(), rule_key(s[index_of(s, k)]) == k,
    {
    }
}
