//! C19 bounded stand-in for the string enums whose conversions are WRITTEN BY HAND (not produced by the derive macros, so the
//! generated Verus units do not see them): `VoipVersionId`, `UriAction`, `TagName`, and `JoinRule` (whose string is the `join_rule` field of a JSON object).
//! For every string of the space: `from(s).as_str() == s` (an unknown value is kept unchanged), conversion is idempotent,
//! equality of two converted values is equality of the strings, and where the type has serde impls the JSON form of a value
//! built from a string is that JSON string and deserializing the JSON string gives the value built from the string.
//!
//! Space: the specified spellings of each enum, each without its last character and with an extra character, "", "0", "1",
//! "2", "00", "01", " 1", "a", "m.", "M.FAVOURITE", "u.", "u.x", "é".
use ruma_common::{matrix_uri::UriAction, VoipVersionId};
use ruma_events::{room::join_rules::JoinRule, tag::TagName, MessageLikeEventType, StateEventType, TimelineEventType};
use serde_json::{json, Value};

use super::Report;

fn strings(spellings: &[&str]) -> Vec<String> {
    let mut out: Vec<String> = ["", "0", "1", "2", "00", "01", " 1", "a", "m.", "M.FAVOURITE", "u.", "u.x", "é"].iter().map(|s| s.to_string()).collect();
    for s in spellings {
        out.push(s.to_string());
        out.push(format!("{s}x"));
        let mut t = s.to_string();
        t.pop();
        out.push(t);
    }
    out.sort();
    out.dedup();
    out
}

fn fail(v: &mut Vec<Value>, x: Value) {
    if v.len() < 30 {
        v.push(x);
    }
}

pub fn run(_tier: &str) -> Report {
    let (mut n, mut f_str, mut f_json, mut f_panic) = (0u64, vec![], vec![], vec![]);
    macro_rules! check {
        ($t:ty, $name:literal, $spellings:expr, $serde:expr) => {{
            let ss = strings($spellings);
            for a in &ss {
                n += 1;
                let r = std::panic::catch_unwind(|| {
                    let mut bad: Vec<(u8, String)> = vec![];
                    let v = <$t>::from(a.as_str());
                    let sv: &str = v.as_ref();
                    if sv != a.as_str() {
                        bad.push((0, format!("from({a:?}) has the string form {sv:?}")));
                    }
                    if <$t>::from(sv) != v {
                        bad.push((0, format!("conversion is not idempotent on {a:?}")));
                    }
                    for b in &ss {
                        if (<$t>::from(b.as_str()) == v) != (a == b) {
                            bad.push((0, format!("equality of from({a:?}) and from({b:?}) disagrees with the strings")));
                        }
                    }
                    let serde_part: &dyn Fn(&$t, &mut Vec<(u8, String)>) = &$serde;
                    serde_part(&v, &mut bad);
                    bad
                });
                match r {
                    Err(_) => fail(&mut f_panic, json!({"enum": $name, "input": a, "observed": "panic"})),
                    Ok(bad) => {
                        for (k, why) in bad {
                            fail(if k == 0 { &mut f_str } else { &mut f_json }, json!({"enum": $name, "input": a, "why": why}));
                        }
                    }
                }
            }
        }};
    }
    macro_rules! serde_check {
        ($t:ty) => {
            |v: &$t, bad: &mut Vec<(u8, String)>| {
                let a: &str = v.as_ref();
                match serde_json::to_value(v) {
                    Ok(j) if j == json!(a) => {}
                    other => bad.push((1, format!("from({a:?}) serializes as {other:?}, not as the JSON string"))),
                }
                match serde_json::from_value::<$t>(json!(a)) {
                    Ok(d) if d == *v => {}
                    other => bad.push((1, format!("the JSON string {a:?} deserializes to {other:?}, from() gives {v:?}"))),
                }
            }
        };
    }
    check!(VoipVersionId, "VoipVersionId", &["1"], serde_check!(VoipVersionId));
    check!(UriAction, "UriAction", &["join", "chat"], |_v: &UriAction, _bad: &mut Vec<(u8, String)>| {});
    check!(TagName, "TagName", &["m.favourite", "m.lowpriority", "m.server_notice", "u.work"], serde_check!(TagName));
    // JoinRule: the string sits in the `join_rule` field of an object (two variants carry more fields); no From<&str>
    for a in strings(&["invite", "knock", "private", "restricted", "knock_restricted", "public"]) {
        n += 1;
        let r = std::panic::catch_unwind(|| -> Vec<String> {
            let mut bad = vec![];
            match serde_json::from_value::<JoinRule>(json!({"join_rule": a})) {
                Err(e) => bad.push(format!("{{\"join_rule\": {a:?}}} is rejected: {e}")),
                Ok(v) => {
                    if v.as_str() != a {
                        bad.push(format!("{{\"join_rule\": {a:?}}} has the string form {:?}", v.as_str()));
                    }
                    match serde_json::to_value(&v) {
                        Ok(j) if j.get("join_rule") == Some(&json!(a)) => match serde_json::from_value::<JoinRule>(j.clone()) {
                            Ok(d) if d == v => {}
                            other => bad.push(format!("{j} deserializes to {other:?}, not to {v:?}")),
                        },
                        other => bad.push(format!("the join rule {a:?} serializes as {other:?}")),
                    }
                }
            }
            bad
        });
        match r {
            Err(_) => fail(&mut f_panic, json!({"enum": "JoinRule", "input": a, "observed": "panic"})),
            Ok(bad) => {
                for why in bad {
                    fail(&mut f_json, json!({"enum": "JoinRule", "input": a, "why": why}));
                }
            }
        }
    }
    // conversions between the event type enums (generated From<StateEventType> / From<MessageLikeEventType> for
    // TimelineEventType): the result is the value that the string gives, whatever kind the string belongs to
    for a in ["m.room.topic", "m.room.message", "m.room.member", "m.room.power_levels", "m.reaction", "m.room.encrypted", "m.call.invite", "m.room.redaction", "m.space.child",
        "m.sticker", "org.example.custom", "m.room.topi", "m.room.topicx", ""]
    {
        n += 1;
        let r = std::panic::catch_unwind(|| -> Vec<String> {
            let mut bad = vec![];
            let want = TimelineEventType::from(a);
            let via_state = TimelineEventType::from(StateEventType::from(a));
            let via_msg = TimelineEventType::from(MessageLikeEventType::from(a));
            for (how, got) in [("StateEventType", via_state), ("MessageLikeEventType", via_msg)] {
                if got.to_string() != a {
                    bad.push(format!("TimelineEventType::from({how}::from({a:?})) has the string form {:?}", got.to_string()));
                }
                if got != want {
                    bad.push(format!("TimelineEventType::from({how}::from({a:?})) is not equal to TimelineEventType::from({a:?}) although both have the string form {a:?}"));
                }
            }
            bad
        });
        match r {
            Err(_) => fail(&mut f_panic, json!({"enum": "TimelineEventType", "input": a, "observed": "panic"})),
            Ok(bad) => {
                for why in bad {
                    fail(&mut f_str, json!({"enum": "TimelineEventType", "input": a, "why": why}));
                }
            }
        }
    }
    // AuthData::auth_type(): the AuthType of a value is the one its `type` string gives
    for a in ["m.login.sso", "m.login.token", "m.login.oauth2", "m.login.dummy", "m.login.terms", "org.example.auth", "m.login.ss", ""] {
        n += 1;
        let r = std::panic::catch_unwind(|| -> Vec<String> {
            use ruma_client_api::uiaa::{AuthData, AuthType};
            let mut bad = vec![];
            if let Ok(d) = AuthData::new(a, Some("sess".to_owned()), Default::default()) {
                match d.auth_type() {
                    Some(t) => {
                        if t.as_ref() != a {
                            bad.push(format!("AuthData::new({a:?}, ..).auth_type() has the string form {:?}", t.as_ref()));
                        }
                        if t != AuthType::from(a) {
                            bad.push(format!("AuthData::new({a:?}, ..).auth_type() is not equal to AuthType::from({a:?}) although both have the string form {a:?}"));
                        }
                    }
                    None => bad.push(format!("AuthData::new({a:?}, ..).auth_type() is None")),
                }
            }
            bad
        });
        match r {
            Err(_) => fail(&mut f_panic, json!({"enum": "AuthType", "input": a, "observed": "panic"})),
            Ok(bad) => {
                for why in bad {
                    fail(&mut f_str, json!({"enum": "AuthType", "input": a, "why": why}));
                }
            }
        }
    }
    // the integer form of the legacy VoIP version
    n += 1;
    if serde_json::to_value(VoipVersionId::V0).ok() != Some(json!(0)) || serde_json::from_value::<VoipVersionId>(json!(0)).ok() != Some(VoipVersionId::V0) || VoipVersionId::V0.as_str() != "0" {
        fail(&mut f_json, json!({"enum": "VoipVersionId", "why": "V0 is not the JSON integer 0"}));
    }
    Report {
        bound: "4 hand-written string enums (VoipVersionId, UriAction, TagName, JoinRule in its JSON object form) the conversions of the event type enums into TimelineEventType and AuthData::auth_type() x specified spellings, each without its last character and with an extra character, 13 generic strings; all pairs for equality".to_owned(),
        cases: n,
        obligations: vec![
            ("hand_written_conversions_keep_every_string_and_equality_follows_the_string", n, f_str),
            ("hand_written_json_forms_agree_with_string_conversion", n, f_json),
            ("hand_written_conversions_never_panic", n, f_panic),
        ],
    }
}
