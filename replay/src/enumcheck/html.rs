//! C14 / C15 / C17 bounded stand-in: the HTML sanitizer of ruma-html (a tree walk over html5ever's DOM, phf tables,
//! RefCell / tendril plumbing - no function of it is within reach of Verus or Kani, so NOTHING here is proved).
//! The real `Html::parse`, `sanitize_with` and `to_string` are run on an enumerated family of documents and the output
//! is judged "as seen by an HTML parser" (the same real parser) against the lists of the Matrix specification written
//! out below.
//!
//! C14: after sanitizing in strict / compat mode (with and without reply-fallback removal) the re-parsed output contains
//!      only allowed elements, on each only its allowed attributes, only allowed URI schemes in a[href] / img[src]
//!      whatever other attributes accompany them, only `language-*` classes on code, no comments or other node kinds,
//!      nesting at most 100 deep, no mx-reply (and none of its content) when the fallback is removed; the text of
//!      the input outside removed subtrees is kept, in order.
//! C15: sanitizing the output again changes nothing; the output equals its own parse-and-reserialize; a document
//!      that is already clean is returned unchanged; font / strike are rewritten to span / s with content kept.
//! C17: none of this panics.
//!
//! Space: every element of a 20-name list (allowed, deprecated, forbidden, unknown) x {no attribute, every single
//! attribute of its universe, every ordered pair of attributes} x 3 contents; every ordered pair (outer, inner) of the
//! names; every sequence of up to 4 (quick) / 5 (thorough) of 14 open/close/text/comment fragments (misnested
//! formatting, tables, mx-reply); nesting chains of 98..103 elements; 4 sanitizer configurations.
use ruma_html::{Html, NodeData, NodeRef, SanitizerConfig};
use serde_json::{json, Value};

use super::Report;

const ALLOWED: &[&str] = &[
    "del", "h1", "h2", "h3", "h4", "h5", "h6", "blockquote", "p", "a", "ul", "ol", "sup", "sub", "li", "b", "i", "u", "strong", "em", "s", "code",
    "hr", "br", "div", "table", "thead", "tbody", "tr", "th", "td", "caption", "pre", "span", "img", "details", "summary", "mx-reply",
];

fn allowed_attrs(el: &str) -> &'static [&'static str] {
    match el {
        "span" => &["data-mx-bg-color", "data-mx-color", "data-mx-spoiler", "data-mx-maths"],
        "a" => &["target", "href"],
        "img" => &["width", "height", "alt", "title", "src"],
        "ol" => &["start"],
        "code" => &["class"],
        "div" => &["data-mx-maths"],
        _ => &[],
    }
}

fn scheme_ok(el: &str, attr: &str, value: &str, compat: bool) -> bool {
    let schemes: &[&str] = match (el, attr) {
        ("a", "href") => {
            if compat {
                &["http", "https", "ftp", "mailto", "magnet", "matrix"]
            } else {
                &["http", "https", "ftp", "mailto", "magnet"]
            }
        }
        ("img", "src") => &["mxc"],
        _ => return true,
    };
    schemes.iter().any(|s| value.starts_with(&format!("{s}:")))
}

#[derive(Debug, Clone, PartialEq)]
enum T {
    Text(String),
    El(String, Vec<(String, String)>, Vec<T>),
    Other,
}

fn tree_of(node: &NodeRef) -> T {
    match node.data() {
        NodeData::Text(t) => T::Text(t.borrow().to_string()),
        NodeData::Element(e) => {
            let attrs = e.attrs.borrow().iter().map(|a| (a.name.local.as_ref().to_owned(), a.value.as_ref().to_owned())).collect();
            T::El(e.name.local.as_ref().to_owned(), attrs, node.children().map(|c| tree_of(&c)).collect())
        }
        _ => T::Other,
    }
}

fn forest(html: &Html) -> Vec<T> {
    html.children().map(|c| tree_of(&c)).collect()
}

/// text of the input that must survive: everything outside subtrees the sanitizer removes (mx-reply when the fallback is
/// removed, comments / other node kinds, elements at depth >= 100)
fn kept_text(ts: &[T], depth: u32, remove_reply: bool, out: &mut String) {
    for t in ts {
        match t {
            T::Text(s) => out.push_str(s),
            T::Other => {}
            T::El(name, _, ch) => {
                if (remove_reply && name == "mx-reply") || depth >= 100 {
                    continue;
                }
                kept_text(ch, depth + 1, remove_reply, out);
            }
        }
    }
}

fn all_text(ts: &[T], out: &mut String) {
    for t in ts {
        match t {
            T::Text(s) => out.push_str(s),
            T::El(_, _, ch) => all_text(ch, out),
            T::Other => {}
        }
    }
}

/// C14 judgement of a sanitized tree as seen by the parser
fn judge(ts: &[T], depth: u32, compat: bool, remove_reply: bool, why: &mut Vec<String>) {
    for t in ts {
        match t {
            T::Text(_) => {}
            T::Other => why.push("a comment or other non-element, non-text node survives".into()),
            T::El(name, attrs, ch) => {
                if !ALLOWED.contains(&name.as_str()) {
                    why.push(format!("element <{name}> is not on the allow-list"));
                }
                if remove_reply && name == "mx-reply" {
                    why.push("an mx-reply element survives reply-fallback removal".into());
                }
                if depth >= 100 {
                    why.push(format!("element <{name}> is nested {} deep", depth + 1));
                }
                for (a, v) in attrs {
                    if !allowed_attrs(name).contains(&a.as_str()) {
                        why.push(format!("attribute {a} is not allowed on <{name}>"));
                    } else if !scheme_ok(name, a, v, compat) {
                        why.push(format!("<{name} {a}={v:?}> has a scheme that is not allowed"));
                    } else if name == "code" && a == "class" && !v.split_ascii_whitespace().all(|c| c.starts_with("language-")) {
                        why.push(format!("<code class={v:?}> carries a class that is not language-*"));
                    }
                }
                judge(ch, depth + 1, compat, remove_reply, why);
            }
        }
    }
}

fn render_attrs(attrs: &[(&str, &str)]) -> String {
    attrs.iter().map(|(k, v)| format!(" {k}=\"{v}\"")).collect()
}

fn documents(thorough: bool) -> Vec<String> {
    let names = [
        "b", "i", "p", "a", "img", "code", "span", "div", "ol", "li", "mx-reply", "table", "td", "blockquote", "font", "strike", "script", "iframe", "form",
        "x-foo",
    ];
    let universe = |el: &str| -> Vec<(&'static str, &'static str)> {
        let mut v: Vec<(&str, &str)> = vec![("onclick", "x()"), ("style", "color:red"), ("id", "k"), ("class", "evil")];
        match el {
            "a" => v.extend([
                ("href", "https://x.org/a"), ("href", "http://x"), ("href", "ftp://x"), ("href", "mailto:a@b"), ("href", "magnet:?xt=1"),
                ("href", "javascript:alert(1)"), ("href", "data:text/html,x"), ("href", "matrix:u/a:b"), ("href", "httpsx://x"), ("href", "ftps://x"),
                ("href", "//x.org"), ("href", "x"), ("href", "HTTPS://x"), ("href", " https://x"), ("target", "_blank"), ("name", "n"),
            ]),
            "img" => v.extend([("src", "mxc://a/b"), ("src", "https://x/y.png"), ("src", "data:image/png,x"), ("src", "mxcs://a/b"), ("width", "1"), ("alt", "t"), ("onerror", "x()")]),
            "code" => v.extend([("class", "language-rust"), ("class", "language-rust evil"), ("class", "evil language-c"), ("class", "language-a\tevil"), ("class", "language-a\nevil")]),
            "span" => v.extend([("data-mx-color", "#ff0000"), ("data-mx-spoiler", "r"), ("data-x", "1")]),
            "font" => v.extend([("color", "#00ff00"), ("data-mx-color", "#ff0000"), ("face", "x")]),
            "div" => v.extend([("data-mx-maths", "x^2"), ("data-mx-color", "#fff")]),
            "ol" => v.extend([("start", "3"), ("type", "a")]),
            _ => {}
        }
        v
    };
    let mut docs = vec![];
    for el in names {
        let u = universe(el);
        for content in ["", "t", "a<b>c</b>"] {
            docs.push(format!("<{el}>{content}</{el}>"));
            for a in &u {
                docs.push(format!("<{el}{}>{content}</{el}>", render_attrs(&[*a])));
                if content != "t" {
                    continue;
                }
                for b in &u {
                    if a.0 != b.0 {
                        docs.push(format!("<{el}{}>{content}</{el}>", render_attrs(&[*a, *b])));
                    }
                }
            }
        }
        for inner in names {
            docs.push(format!("x<{el}>y<{inner}>z</{inner}>w</{el}>v"));
        }
    }
    // fragment sequences: misnested formatting, tables, reply fallback, comments
    let frags = ["<hr>", "<b>", "</b>", "<p>", "</p>", "<a href=\"https://x\">", "</a>", "<div>", "</div>", "t", "<!-- c -->", "<mx-reply>", "</mx-reply>", "<table><td>", "<script>"];
    let mut layer = vec![String::new()];
    for _ in 0..(if thorough { 5 } else { 4 }) {
        let mut next = vec![];
        for t in &layer {
            for f in frags {
                next.push(format!("{t}{f}"));
            }
        }
        docs.extend(next.iter().cloned());
        layer = next;
    }
    for n in [98usize, 99, 100, 101, 102, 103] {
        docs.push(format!("{}deep{}", "<div>".repeat(n), "</div>".repeat(n)));
        docs.push(format!("{}<b>deep</b>{}", "<span>".repeat(n), "</span>".repeat(n)));
        docs.push(format!("{}deep{}", "<x-foo><b>".repeat(n / 2), "</b></x-foo>".repeat(n / 2)));
    }
    docs.push("&lt;script&gt; &amp; <b>x &lt; y</b> <!-- --> <?pi?> <!DOCTYPE html>".into());
    docs
}

fn fail(v: &mut Vec<Value>, x: Value) {
    if v.len() < 25 {
        v.push(x);
    }
}

type Fails = (Vec<Value>, Vec<Value>, Vec<Value>, Vec<Value>, Vec<Value>, Vec<Value>);

fn run_docs(docs: &[String]) -> (u64, Fails, u64, Vec<Value>) {
    let mut nontrivial = 0u64;
    let mut samples: Vec<Value> = vec![];
    let (mut n, mut f_allow, mut f_text, mut f_idem, mut f_clean, mut f_depr, mut f_panic) = (0u64, vec![], vec![], vec![], vec![], vec![], vec![]);
    // (name, compat, reply fallback removed, 0 = no element list / 1 = remove_elements([hr]) set after / 2 = set before the fallback removal)
    let configs: [(&str, bool, bool, u8); 6] = [
        ("strict", false, false, 0), ("compat", true, false, 0), ("strict+remove_reply_fallback", false, true, 0), ("compat+remove_reply_fallback", true, true, 0),
        ("strict+remove_reply_fallback+remove_elements[hr]", false, true, 1), ("compat+remove_elements[hr]+remove_reply_fallback", true, true, 2),
    ];
    for d in docs {
        for (cname, compat, rr, rm) in configs {
            n += 1;
            let r = std::panic::catch_unwind(|| {
                let mk = || {
                    let c = if compat { SanitizerConfig::compat() } else { SanitizerConfig::strict() };
                    let c = if rm == 2 { c.remove_elements(["hr"]) } else { c };
                    let c = if rr { c.remove_reply_fallback() } else { c };
                    if rm == 1 { c.remove_elements(["hr"]) } else { c }
                };
                let input = Html::parse(d);
                let t0 = forest(&input);
                let plain = input.to_string();
                input.sanitize_with(&mk());
                let t1 = forest(&input);
                let out = input.to_string();
                let re = Html::parse(&out);
                let t2 = forest(&re);
                let out_reserialized = re.to_string();
                re.sanitize_with(&mk());
                let out_twice = re.to_string();
                // sanitizing the same document object twice
                input.sanitize_with(&mk());
                let same_object_twice = input.to_string();
                (t0, plain, t1, out, t2, out_reserialized, out_twice, same_object_twice)
            });
            match r {
                Err(_) => fail(&mut f_panic, json!({"document": d, "config": cname, "observed": "panic"})),
                Ok((t0, plain, _t1, out, t2, out_reserialized, out_twice, same_object_twice)) => {
                    // non-trivial: the parsed input has at least one element / non-text node (so the sanitizer has a decision to take)
                    if t0.iter().any(|t| !matches!(t, T::Text(_))) {
                        nontrivial += 1;
                        if samples.len() < 3 && out != plain {
                            samples.push(json!({"document": d, "config": cname, "sanitized": out}));
                        }
                    }
                    let mut why = vec![];
                    judge(&t2, 0, compat, rr, &mut why);
                    if rm != 0 && out.contains("<hr") {
                        why.push("an <hr> element survives remove_elements([\"hr\"])".into());
                    }
                    if !why.is_empty() {
                        why.truncate(4);
                        fail(&mut f_allow, json!({"document": d, "config": cname, "sanitized": out, "violations": why}));
                    }
                    let (mut want, mut got) = (String::new(), String::new());
                    kept_text(&t0, 0, rr, &mut want);
                    all_text(&t2, &mut got);
                    if want != got {
                        fail(&mut f_text, json!({"document": d, "config": cname, "sanitized": out, "text_kept": got, "text_expected": want}));
                    }
                    if out_twice != out || out_reserialized != out || same_object_twice != out {
                        fail(&mut f_idem, json!({"document": d, "config": cname, "sanitized": out, "parse_and_reserialize": out_reserialized,
                            "sanitized_again": out_twice, "same_object_sanitized_twice": same_object_twice}));
                    }
                    // a document that already satisfies the judgement is returned unchanged
                    let mut why0 = vec![];
                    judge(&t0, 0, compat, rr, &mut why0);
                    if why0.is_empty() && !(rm != 0 && plain.contains("<hr")) && out != plain {
                        fail(&mut f_clean, json!({"document": d, "config": cname, "parse_and_reserialize": plain, "sanitized": out}));
                    }
                    // deprecated elements are rewritten, content and remaining attributes preserved
                    if d.starts_with("<font") || d.starts_with("<strike") {
                        let ok = match t2.first() {
                            Some(T::El(name, attrs, _)) => {
                                (if d.starts_with("<font") { name == "span" } else { name == "s" })
                                    && (!d.contains(" color=\"#00ff00\"") || d.contains("data-mx-color") || attrs.iter().any(|(k, v)| k == "data-mx-color" && v == "#00ff00"))
                            }
                            _ => false,
                        };
                        if !ok {
                            fail(&mut f_depr, json!({"document": d, "config": cname, "sanitized": out}));
                        }
                    }
                }
            }
        }
    }
    (n, (f_allow, f_text, f_idem, f_clean, f_depr, f_panic), nontrivial, samples)
}

pub fn run(tier: &str) -> Report {
    let mut docs = documents(tier == "thorough");
    docs.sort();
    docs.dedup();
    let nthreads = 12usize;
    let chunks: Vec<Vec<String>> = (0..nthreads).map(|t| docs.iter().skip(t).step_by(nthreads).cloned().collect()).collect();
    let handles: Vec<_> = chunks.into_iter().map(|c| std::thread::spawn(move || run_docs(&c))).collect();
    let mut n = 0u64;
    let mut acc: Fails = Default::default();
    let (mut nontrivial, mut samples) = (0u64, vec![]);
    for h in handles {
        match h.join() {
            Ok((k, f, nt, sm)) => {
                n += k;
                nontrivial += nt;
                if samples.len() < 4 {
                    samples.extend(sm);
                }
                for x in f.0 { fail(&mut acc.0, x); }
                for x in f.1 { fail(&mut acc.1, x); }
                for x in f.2 { fail(&mut acc.2, x); }
                for x in f.3 { fail(&mut acc.3, x); }
                for x in f.4 { fail(&mut acc.4, x); }
                for x in f.5 { fail(&mut acc.5, x); }
            }
            Err(_) => fail(&mut acc.5, json!({"observed": "enumeration thread panicked"})),
        }
    }
    *super::EXTRA.lock().unwrap() = Some((
        nontrivial,
        "cases are (document, sanitizer configuration) pairs over the de-duplicated document list; a case is non-trivial when the parsed input contains at least one element or non-text node; distinct by construction (documents are de-duplicated, configurations differ)".to_owned(),
        samples,
    ));
    Report {
        bound: format!("{} documents (20 element names x attribute singles and ordered pairs x 3 contents, all ordered name pairs, fragment sequences up to length {}, nesting 98..103) x 6 sanitizer configurations (strict / compat, with and without reply-fallback removal, and combined with remove_elements in both call orders)", docs.len(), if tier == "thorough" { 5 } else { 4 }),
        cases: n,
        obligations: vec![
            ("output_has_only_allowed_elements_attributes_schemes_classes_and_depth", n, acc.0),
            ("text_outside_removed_subtrees_is_kept_in_order", n, acc.1),
            ("sanitizing_is_idempotent_and_stable_under_reserialization", n, acc.2),
            ("clean_documents_are_returned_unchanged", n, acc.3),
            ("deprecated_elements_are_rewritten_to_their_replacements", n, acc.4),
            ("html_parsing_and_sanitizing_never_panic", n, acc.5),
        ],
    }
}
