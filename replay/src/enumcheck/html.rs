//! C14 / C15 / C17 bounded stand-in: the HTML sanitizer of ruma-html (a tree walk over html5ever's DOM, phf tables,
//! RefCell / tendril plumbing - no function of it is within reach of Verus or Kani, so NOTHING here is proved).
//! The real `Html::parse`, `sanitize_with` and `to_string` are run on an enumerated family of documents and the output
//! is judged "as seen by an HTML parser" (the same real parser) against the lists of the Matrix specification written
//! out below.
//!
//! C14: after sanitizing in strict / compat mode (with and without reply-fallback removal) the re-parsed output contains
//!      only allowed elements, on each only its allowed attributes, only allowed URI schemes in a[href] / img[src]
//!      whatever other attributes accompany them, only `language-*` classes on code, no comments or other node kinds,
//!      nesting at most 100 deep, no mx-reply (and none of its content) when the fallback is removed; the text of
//!      the input outside removed subtrees is kept, in order.
//! C15: sanitizing the output again changes nothing; the output equals its own parse-and-reserialize; a document
//!      that is already clean is returned unchanged; font / strike are rewritten to span / s with content kept.
//! C17: none of this panics.
//!
//! Space: every element of a 20-name list (allowed, deprecated, forbidden, unknown) x {no attribute, every single
//! attribute of its universe, every ordered pair of attributes} x 3 contents; every ordered pair (outer, inner) of the
//! names; every sequence of up to 4 (quick) / 5 (thorough) of 14 open/close/text/comment fragments (misnested
//! formatting, tables, mx-reply); nesting chains of 98..103 elements; 4 sanitizer configurations.
use ruma_html::{ElementAttributesSchemes, Html, ListBehavior, NodeData, NodeRef, PropertiesNames, SanitizerConfig};
use serde_json::{json, Value};

use super::Report;

const ALLOWED: &[&str] = &[
    "del", "h1", "h2", "h3", "h4", "h5", "h6", "blockquote", "p", "a", "ul", "ol", "sup", "sub", "li", "b", "i", "u", "strong", "em", "s", "code",
    "hr", "br", "div", "table", "thead", "tbody", "tr", "th", "td", "caption", "pre", "span", "img", "details", "summary", "mx-reply",
];

fn allowed_attrs(el: &str) -> &'static [&'static str] {
    match el {
        "span" => &["data-mx-bg-color", "data-mx-color", "data-mx-spoiler", "data-mx-maths"],
        "a" => &["target", "href"],
        "img" => &["width", "height", "alt", "title", "src"],
        "ol" => &["start"],
        "code" => &["class"],
        "div" => &["data-mx-maths"],
        _ => &[],
    }
}

type L1 = Vec<(&'static str, Vec<&'static str>)>;
type L2 = Vec<(&'static str, &'static str, Vec<&'static str>)>;

/// A sanitizer configuration as a recipe of public builder calls. `Some((true, ..))` = ListBehavior::Override.
#[derive(Clone, Default)]
struct Cfg {
    name: &'static str,
    compat: bool,
    remove_reply: bool,
    /// 0 = none, 1 = remove_elements set after remove_reply_fallback, 2 = before
    remove_elements: (u8, Vec<&'static str>),
    allow_elements: Option<(bool, Vec<&'static str>)>,
    allow_attrs: Option<(bool, L1)>,
    remove_attrs: L1,
    allow_schemes: Option<(bool, L2)>,
    deny_schemes: L2,
    allow_classes: Option<(bool, L1)>,
    remove_classes: L1,
    max_depth: Option<u32>,
    /// inside the quantifier of C15 (mode x reply-fallback removal)
    c15: bool,
}

fn behavior(o: bool) -> ListBehavior {
    if o { ListBehavior::Override } else { ListBehavior::Add }
}

impl Cfg {
    fn build(&self) -> SanitizerConfig {
        let mut c = if self.compat { SanitizerConfig::compat() } else { SanitizerConfig::strict() };
        if self.remove_elements.0 == 2 {
            c = c.remove_elements(self.remove_elements.1.iter().copied());
        }
        if self.remove_reply {
            c = c.remove_reply_fallback();
        }
        if self.remove_elements.0 == 1 {
            c = c.remove_elements(self.remove_elements.1.iter().copied());
        }
        if let Some((o, l)) = &self.allow_elements {
            c = c.allow_elements(l.iter().copied(), behavior(*o));
        }
        if let Some((o, l)) = &self.allow_attrs {
            c = c.allow_attributes(l.iter().map(|(e, a)| PropertiesNames { parent: e, properties: a }), behavior(*o));
        }
        if !self.remove_attrs.is_empty() {
            c = c.remove_attributes(self.remove_attrs.iter().map(|(e, a)| PropertiesNames { parent: e, properties: a }));
        }
        if let Some((o, l)) = &self.allow_schemes {
            c = c.allow_schemes(l.iter().map(|(e, a, s)| ElementAttributesSchemes { element: e, attr_schemes: std::slice::from_ref(Box::leak(Box::new(PropertiesNames { parent: a, properties: Box::leak(s.clone().into_boxed_slice()) }))) }), behavior(*o));
        }
        if !self.deny_schemes.is_empty() {
            c = c.deny_schemes(self.deny_schemes.iter().map(|(e, a, s)| ElementAttributesSchemes { element: e, attr_schemes: std::slice::from_ref(Box::leak(Box::new(PropertiesNames { parent: a, properties: Box::leak(s.clone().into_boxed_slice()) }))) }));
        }
        if let Some((o, l)) = &self.allow_classes {
            c = c.allow_classes(l.iter().map(|(e, a)| PropertiesNames { parent: e, properties: a }), behavior(*o));
        }
        if !self.remove_classes.is_empty() {
            c = c.remove_classes(self.remove_classes.iter().map(|(e, a)| PropertiesNames { parent: e, properties: a }));
        }
        if let Some(d) = self.max_depth {
            c = c.max_depth(d);
        }
        c
    }

    // ---- the policy the configuration stands for, from the builder documentation: an `Override` list replaces the mode's
    // list, an `Add` list extends it; removals and denials always apply
    fn removed(&self, el: &str) -> bool {
        (self.remove_reply && el == "mx-reply") || (self.remove_elements.0 != 0 && self.remove_elements.1.contains(&el))
    }
    fn depth(&self) -> u32 {
        self.max_depth.unwrap_or(100)
    }
    fn element_ok(&self, el: &str) -> bool {
        match &self.allow_elements {
            Some((true, l)) => l.contains(&el),
            Some((false, l)) => l.contains(&el) || ALLOWED.contains(&el),
            None => ALLOWED.contains(&el),
        }
    }
    fn attr_ok(&self, el: &str, a: &str) -> bool {
        if self.remove_attrs.iter().any(|(e, l)| *e == el && l.contains(&a)) {
            return false;
        }
        let listed = |l: &L1| l.iter().any(|(e, l)| *e == el && l.contains(&a));
        match &self.allow_attrs {
            Some((true, l)) => listed(l),
            Some((false, l)) => listed(l) || allowed_attrs(el).contains(&a),
            None => allowed_attrs(el).contains(&a),
        }
    }
    /// `None` = the pair is not scheme-checked
    fn schemes(&self, el: &str, a: &str) -> Option<Vec<&'static str>> {
        let mut mode: Option<Vec<&'static str>> = match (el, a) {
            ("a", "href") => Some(vec!["http", "https", "ftp", "mailto", "magnet"]),
            ("img", "src") => Some(vec!["mxc"]),
            _ => None,
        };
        if self.compat && (el, a) == ("a", "href") {
            mode.as_mut().unwrap().push("matrix");
        }
        let listed: Option<Vec<&'static str>> =
            self.allow_schemes.as_ref().and_then(|(_, l)| l.iter().find(|(e, at, _)| *e == el && *at == a).map(|(_, _, s)| s.clone()));
        match &self.allow_schemes {
            Some((true, _)) => listed,
            Some((false, _)) => match (listed, mode) {
                (None, None) => None,
                (x, y) => Some(x.unwrap_or_default().into_iter().chain(y.unwrap_or_default()).collect()),
            },
            None => mode,
        }
    }
    fn scheme_ok(&self, el: &str, a: &str, value: &str) -> bool {
        if self.deny_schemes.iter().any(|(e, at, s)| *e == el && *at == a && s.iter().any(|s| value.starts_with(&format!("{s}:")))) {
            return false;
        }
        match self.schemes(el, a) {
            None => true,
            Some(s) => s.iter().any(|s| value.starts_with(&format!("{s}:"))),
        }
    }
    fn class_ok(&self, el: &str, class: &str) -> bool {
        let m = |pat: &str| if let Some(p) = pat.strip_suffix('*') { class.starts_with(p) } else { class == pat };
        if self.remove_classes.iter().any(|(e, l)| *e == el && l.iter().any(|p| m(p))) {
            return false;
        }
        let listed = |l: &L1| l.iter().any(|(e, l)| *e == el && l.iter().any(|p| m(p)));
        let mode = el == "code" && class.starts_with("language-");
        match &self.allow_classes {
            Some((true, l)) => listed(l),
            Some((false, l)) => listed(l) || mode,
            None => mode,
        }
    }
}

fn configs() -> Vec<Cfg> {
    let d = Cfg::default;
    vec![
        Cfg { name: "strict", c15: true, ..d() },
        Cfg { name: "compat", c15: true, compat: true, ..d() },
        Cfg { name: "strict+remove_reply_fallback", c15: true, remove_reply: true, ..d() },
        Cfg { name: "compat+remove_reply_fallback", c15: true, compat: true, remove_reply: true, ..d() },
        Cfg { name: "strict+remove_reply_fallback+remove_elements[hr]", c15: true, remove_reply: true, remove_elements: (1, vec!["hr"]), ..d() },
        Cfg { name: "compat+remove_elements[hr]+remove_reply_fallback", c15: true, compat: true, remove_reply: true, remove_elements: (2, vec!["hr"]), ..d() },
        Cfg { name: "compat+allow_schemes(a.href=[https],img.src=[mxc];Override)", compat: true,
            allow_schemes: Some((true, vec![("a", "href", vec!["https"]), ("img", "src", vec!["mxc"])])), ..d() },
        Cfg { name: "strict+allow_schemes(a.href=[https],img.src=[mxc];Override)+remove_reply_fallback", remove_reply: true,
            allow_schemes: Some((true, vec![("a", "href", vec!["https"]), ("img", "src", vec!["mxc"])])), ..d() },
        Cfg { name: "compat+allow_schemes(a.href=[data];Add)+deny_schemes(a.href=[http])", compat: true,
            allow_schemes: Some((false, vec![("a", "href", vec!["data"])])), deny_schemes: vec![("a", "href", vec!["http"])], ..d() },
        Cfg { name: "strict+allow_attributes(a=[name],span=[id];Add)+remove_attributes(a=[target])",
            allow_attrs: Some((false, vec![("a", vec!["name"]), ("span", vec!["id"])])), remove_attrs: vec![("a", vec!["target"])], ..d() },
        Cfg { name: "compat+allow_attributes(a=[href],code=[class];Override)", compat: true,
            allow_attrs: Some((true, vec![("a", vec!["href"]), ("code", vec!["class"])])), ..d() },
        Cfg { name: "strict+allow_classes(code=[evil];Override)", allow_classes: Some((true, vec![("code", vec!["evil"])])), ..d() },
        Cfg { name: "compat+allow_classes(code=[evil];Add)+remove_classes(code=[language-r*])", compat: true,
            allow_classes: Some((false, vec![("code", vec!["evil"])])), remove_classes: vec![("code", vec!["language-r*"])], ..d() },
        Cfg { name: "strict+allow_elements([x-foo,form];Add)+max_depth(3)", allow_elements: Some((false, vec!["x-foo", "form"])), max_depth: Some(3), ..d() },
        Cfg { name: "compat+allow_elements([b,a,p,div];Override)+remove_elements[blockquote]", compat: true,
            allow_elements: Some((true, vec!["b", "a", "p", "div"])), remove_elements: (1, vec!["blockquote"]), ..d() },
    ]
}

#[derive(Debug, Clone, PartialEq)]
enum T {
    Text(String),
    El(String, Vec<(String, String)>, Vec<T>),
    Other,
}

fn tree_of(node: &NodeRef) -> T {
    match node.data() {
        NodeData::Text(t) => T::Text(t.borrow().to_string()),
        NodeData::Element(e) => {
            let attrs = e.attrs.borrow().iter().map(|a| (a.name.local.as_ref().to_owned(), a.value.as_ref().to_owned())).collect();
            T::El(e.name.local.as_ref().to_owned(), attrs, node.children().map(|c| tree_of(&c)).collect())
        }
        _ => T::Other,
    }
}

fn forest(html: &Html) -> Vec<T> {
    html.children().map(|c| tree_of(&c)).collect()
}

/// text of the input that must survive: everything outside subtrees the sanitizer removes (mx-reply when the fallback is
/// removed, comments / other node kinds, elements at depth >= 100)
fn kept_text(ts: &[T], depth: u32, cfg: &Cfg, out: &mut String) {
    for t in ts {
        match t {
            T::Text(s) => out.push_str(s),
            T::Other => {}
            T::El(name, _, ch) => {
                if cfg.removed(name) || depth >= cfg.depth() {
                    continue;
                }
                kept_text(ch, depth + 1, cfg, out);
            }
        }
    }
}

fn all_text(ts: &[T], out: &mut String) {
    for t in ts {
        match t {
            T::Text(s) => out.push_str(s),
            T::El(_, _, ch) => all_text(ch, out),
            T::Other => {}
        }
    }
}

/// C14 judgement of a sanitized tree as seen by the parser
fn judge(ts: &[T], depth: u32, cfg: &Cfg, why: &mut Vec<String>) {
    for t in ts {
        match t {
            T::Text(_) => {}
            T::Other => why.push("a comment or other non-element, non-text node survives".into()),
            T::El(name, attrs, ch) => {
                if !cfg.element_ok(name) {
                    why.push(format!("element <{name}> is not on the allow-list"));
                }
                if cfg.removed(name) {
                    why.push(format!("a <{name}> element survives its removal (reply fallback / remove_elements)"));
                }
                if depth >= cfg.depth() {
                    why.push(format!("element <{name}> is nested {} deep", depth + 1));
                }
                for (a, v) in attrs {
                    if !cfg.attr_ok(name, a) {
                        why.push(format!("attribute {a} is not allowed on <{name}>"));
                    } else if !cfg.scheme_ok(name, a, v) {
                        why.push(format!("<{name} {a}={v:?}> has a scheme that is not allowed"));
                    } else if a == "class" && !v.split_whitespace().all(|c| cfg.class_ok(name, c)) {
                        why.push(format!("<{name} class={v:?}> carries a class that is not allowed"));
                    }
                }
                judge(ch, depth + 1, cfg, why);
            }
        }
    }
}

fn render_attrs(attrs: &[(&str, &str)]) -> String {
    attrs.iter().map(|(k, v)| format!(" {k}=\"{v}\"")).collect()
}

fn documents(thorough: bool) -> Vec<String> {
    let names = [
        "b", "i", "p", "a", "img", "code", "span", "div", "ol", "li", "mx-reply", "table", "td", "blockquote", "font", "strike", "script", "iframe", "form",
        "x-foo", "object", "marquee", "button", "select", "svg", "h1",
        // every element of the allow-list appears (a clean document with it must come back unchanged)
        "del", "h2", "h3", "h4", "h5", "h6", "ul", "sup", "sub", "u", "strong", "em", "s", "hr", "br", "thead", "tbody", "tr", "th", "caption", "pre", "details", "summary",
    ];
    let universe = |el: &str| -> Vec<(&'static str, &'static str)> {
        let mut v: Vec<(&str, &str)> = vec![("onclick", "x()"), ("style", "color:red"), ("id", "k"), ("class", "evil")];
        match el {
            "a" => v.extend([
                ("href", "https://x.org/a"), ("href", "http://x"), ("href", "ftp://x"), ("href", "mailto:a@b"), ("href", "magnet:?xt=1"),
                ("href", "javascript:alert(1)"), ("href", "data:text/html,x"), ("href", "matrix:u/a:b"), ("href", "httpsx://x"), ("href", "ftps://x"),
                ("href", "//x.org"), ("href", "x"), ("href", "HTTPS://x"), ("href", " https://x"), ("target", "_blank"), ("name", "n"),
            ]),
            "img" => v.extend([("src", "mxc://a/b"), ("src", "https://x/y.png"), ("src", "data:image/png,x"), ("src", "mxcs://a/b"), ("width", "1"), ("alt", "t"), ("onerror", "x()")]),
            "code" => v.extend([("class", "language-rust"), ("class", "language-rust evil"), ("class", "evil language-c"), ("class", "language-a\tevil"), ("class", "language-a\nevil")]),
            "span" => v.extend([("data-mx-color", "#ff0000"), ("data-mx-spoiler", "r"), ("data-x", "1")]),
            "font" => v.extend([("color", "#00ff00"), ("data-mx-color", "#ff0000"), ("face", "x")]),
            "div" => v.extend([("data-mx-maths", "x^2"), ("data-mx-color", "#fff")]),
            "ol" => v.extend([("start", "3"), ("type", "a")]),
            _ => {}
        }
        v
    };
    let mut docs = vec![];
    for el in names {
        let u = universe(el);
        for content in ["", "t", "a<b>c</b>"] {
            docs.push(format!("<{el}>{content}</{el}>"));
            for a in &u {
                docs.push(format!("<{el}{}>{content}</{el}>", render_attrs(&[*a])));
                if content != "t" {
                    continue;
                }
                for b in &u {
                    if a.0 != b.0 {
                        docs.push(format!("<{el}{}>{content}</{el}>", render_attrs(&[*a, *b])));
                    }
                }
            }
        }
        for inner in names {
            docs.push(format!("x<{el}>y<{inner}>z</{inner}>w</{el}>v"));
        }
    }
    // three levels: formatting / link / table ancestors around scope-marker and foreign elements around the same again
    for outer in ["a href=\"https://x\"", "b", "table", "p", "li"] {
        for mid in ["object", "marquee", "td", "svg", "math", "x-foo", "button", "caption", "select", "template"] {
            for inner in ["a href=\"https://y\"", "b", "td", "p", "li", "tr", "title", "style", "mi", "desc"] {
                let close = |t: &str| format!("</{}>", t.split(' ').next().unwrap());
                docs.push(format!("1<{outer}>2<{mid}>3<{inner}>4{}5{}6{}7", close(inner), close(mid), close(outer)));
            }
        }
    }
    // fragment sequences: misnested formatting, tables, reply fallback, comments
    let frags = ["<hr>", "<b>", "</b>", "<p>", "</p>", "<a href=\"https://x\">", "</a>", "<div>", "</div>", "t", "<!-- c -->", "<mx-reply>", "</mx-reply>", "<table><td>", "<script>"];
    let mut layer = vec![String::new()];
    for _ in 0..(if thorough { 5 } else { 4 }) {
        let mut next = vec![];
        for t in &layer {
            for f in frags {
                next.push(format!("{t}{f}"));
            }
        }
        docs.extend(next.iter().cloned());
        layer = next;
    }
    for n in [98usize, 99, 100, 101, 102, 103] {
        docs.push(format!("{}deep{}", "<div>".repeat(n), "</div>".repeat(n)));
        docs.push(format!("{}<b>deep</b>{}", "<span>".repeat(n), "</span>".repeat(n)));
        docs.push(format!("{}deep{}", "<x-foo><b>".repeat(n / 2), "</b></x-foo>".repeat(n / 2)));
    }
    docs.push("&lt;script&gt; &amp; <b>x &lt; y</b> <!-- --> <?pi?> <!DOCTYPE html>".into());
    // text that begins with line feeds right after a start tag: a parser drops ONE line feed after <pre> (and <textarea>,
    // <listing>), so the serialized form has to write one more than the text has
    for el in ["pre", "p", "code", "div", "blockquote"] {
        for text in ["\ncode", "\n\ncode", "\n\n\ncode", "\r\n\r\ncode", "&#10;&#10;code", "\n", "\n\n"] {
            docs.push(format!("<{el}>{text}</{el}>"));
            docs.push(format!("a<{el}><code>{text}</code></{el}>b"));
            docs.push(format!("<{el}><x-foo>{text}</x-foo>second line</{el}>"));
        }
    }
    // class attributes whose classes are all allowed but not separated by exactly one space
    for cls in ["language-rust  language-c", "language-sh ", " language-sh", "language-a\tlanguage-b", "language-a\nlanguage-b", "  ", "language-rust language-c"] {
        docs.push(format!("<code class=\"{cls}\">x</code>"));
        docs.push(format!("<pre><code class=\"{cls}\">x</code></pre>"));
    }
    docs
}

/// failures are recorded once per document (the first configuration that shows it), so that the many configurations under
/// which a listed known finding shows do not crowd a different failure out of the capped list
fn fail(v: &mut Vec<Value>, x: Value) {
    if v.len() < 600 && !v.iter().any(|y| y.get("document").is_some() && y.get("document") == x.get("document")) {
        v.push(x);
    }
}

type Fails = (Vec<Value>, Vec<Value>, Vec<Value>, Vec<Value>, Vec<Value>, Vec<Value>);

fn run_docs(docs: &[String]) -> (u64, Fails, u64, Vec<Value>) {
    let mut nontrivial = 0u64;
    let mut samples: Vec<Value> = vec![];
    let (mut n, mut f_allow, mut f_text, mut f_idem, mut f_clean, mut f_depr, mut f_panic) = (0u64, vec![], vec![], vec![], vec![], vec![], vec![]);
    let configs = configs();
    let built: Vec<SanitizerConfig> = configs.iter().map(|c| c.build()).collect();
    for d in docs {
        for (cfg, built) in configs.iter().zip(&built) {
            let cname = cfg.name;
            n += 1;
            let r = std::panic::catch_unwind(std::panic::AssertUnwindSafe(|| {
                let mk = || built.clone();
                let input = Html::parse(d);
                let t0 = forest(&input);
                let plain = input.to_string();
                input.sanitize_with(&mk());
                let t1 = forest(&input);
                let out = input.to_string();
                let re = Html::parse(&out);
                let t2 = forest(&re);
                let out_reserialized = re.to_string();
                re.sanitize_with(&mk());
                let out_twice = re.to_string();
                // sanitizing the same document object twice
                input.sanitize_with(&mk());
                let same_object_twice = input.to_string();
                (t0, plain, t1, out, t2, out_reserialized, out_twice, same_object_twice)
            }));
            match r {
                Err(_) => fail(&mut f_panic, json!({"document": d, "config": cname, "observed": "panic"})),
                Ok((t0, plain, _t1, out, t2, out_reserialized, out_twice, same_object_twice)) => {
                    // non-trivial: the parsed input has at least one element / non-text node (so the sanitizer has a decision to take)
                    if t0.iter().any(|t| !matches!(t, T::Text(_))) {
                        nontrivial += 1;
                        if samples.len() < 3 && out != plain {
                            samples.push(json!({"document": d, "config": cname, "sanitized": out}));
                        }
                    }
                    let mut why = vec![];
                    judge(&t2, 0, cfg, &mut why);
                    if !why.is_empty() {
                        why.truncate(4);
                        fail(&mut f_allow, json!({"document": d, "config": cname, "sanitized": out, "violations": why}));
                    }
                    let (mut want, mut got) = (String::new(), String::new());
                    kept_text(&t0, 0, cfg, &mut want);
                    all_text(&t2, &mut got);
                    if want != got {
                        fail(&mut f_text, json!({"document": d, "config": cname, "sanitized": out, "text_kept": got, "text_expected": want}));
                    }
                    // C15 quantifies over strict / compat mode with and without reply-fallback removal (the first six
                    // configurations); the list-override configurations belong to C14 only
                    if !cfg.c15 {
                        continue;
                    }
                    if out_twice != out || out_reserialized != out || same_object_twice != out {
                        fail(&mut f_idem, json!({"document": d, "config": cname, "sanitized": out, "parse_and_reserialize": out_reserialized,
                            "sanitized_again": out_twice, "same_object_sanitized_twice": same_object_twice}));
                    }
                    // a document that already satisfies the judgement is returned unchanged
                    let mut why0 = vec![];
                    judge(&t0, 0, cfg, &mut why0);
                    if why0.is_empty() && out != plain {
                        fail(&mut f_clean, json!({"document": d, "config": cname, "parse_and_reserialize": plain, "sanitized": out}));
                    }
                    // deprecated elements are rewritten, content and remaining attributes preserved
                    if d.starts_with("<font") || d.starts_with("<strike") {
                        let ok = match t2.first() {
                            Some(T::El(name, attrs, _)) => {
                                (if d.starts_with("<font") { name == "span" } else { name == "s" })
                                    && (!d.contains(" color=\"#00ff00\"") || d.contains("data-mx-color") || attrs.iter().any(|(k, v)| k == "data-mx-color" && v == "#00ff00"))
                            }
                            _ => false,
                        };
                        if !ok {
                            fail(&mut f_depr, json!({"document": d, "config": cname, "sanitized": out}));
                        }
                    }
                }
            }
        }
    }
    (n, (f_allow, f_text, f_idem, f_clean, f_depr, f_panic), nontrivial, samples)
}

pub fn run(tier: &str) -> Report {
    let mut docs = documents(tier == "thorough");
    docs.sort();
    docs.dedup();
    let nthreads = 12usize;
    let chunks: Vec<Vec<String>> = (0..nthreads).map(|t| docs.iter().skip(t).step_by(nthreads).cloned().collect()).collect();
    let handles: Vec<_> = chunks.into_iter().map(|c| std::thread::spawn(move || run_docs(&c))).collect();
    let mut n = 0u64;
    let mut acc: Fails = Default::default();
    let (mut nontrivial, mut samples) = (0u64, vec![]);
    for h in handles {
        match h.join() {
            Ok((k, f, nt, sm)) => {
                n += k;
                nontrivial += nt;
                if samples.len() < 4 {
                    samples.extend(sm);
                }
                for x in f.0 { fail(&mut acc.0, x); }
                for x in f.1 { fail(&mut acc.1, x); }
                for x in f.2 { fail(&mut acc.2, x); }
                for x in f.3 { fail(&mut acc.3, x); }
                for x in f.4 { fail(&mut acc.4, x); }
                for x in f.5 { fail(&mut acc.5, x); }
            }
            Err(_) => fail(&mut acc.5, json!({"observed": "enumeration thread panicked"})),
        }
    }
    *super::EXTRA.lock().unwrap() = Some((
        nontrivial,
        "cases are (document, sanitizer configuration) pairs over the de-duplicated document list; a case is non-trivial when the parsed input contains at least one element or non-text node; distinct by construction (documents are de-duplicated, configurations differ)".to_owned(),
        samples,
    ));
    Report {
        bound: format!("{} documents (49 element names incl. every allowed one x attribute singles and ordered pairs x 3 contents, all ordered name pairs, fragment sequences up to length {}, nesting 98..103) x {} sanitizer configurations (strict / compat, with and without reply-fallback removal, remove_elements in both call orders, and Override / Add lists for schemes, attributes, classes and elements, deny_schemes, remove_attributes, remove_classes, max_depth)", docs.len(), if tier == "thorough" { 5 } else { 4 }, configs().len()),
        cases: n,
        obligations: vec![
            ("output_has_only_allowed_elements_attributes_schemes_classes_and_depth", n, acc.0),
            ("text_outside_removed_subtrees_is_kept_in_order", n, acc.1),
            ("sanitizing_is_idempotent_and_stable_under_reserialization", n, acc.2),
            ("clean_documents_are_returned_unchanged", n, acc.3),
            ("deprecated_elements_are_rewritten_to_their_replacements", n, acc.4),
            ("html_parsing_and_sanitizing_never_panic", n, acc.5),
        ],
    }
}
