//! C17 bounded stand-in for "never exhausts the stack" on HTML: the recursive tree walks of ruma-html (clean, serialize, drop)
//! on documents nested `depth` levels deep. A stack overflow aborts the process, so every (depth, operation) pair runs in a
//! child process (`replay --deep-html <depth> <op>`) on a thread with a 2 MiB stack (the default of spawned threads);
//! the parent looks at the exit status.
//!
//! Space: depths {100, 1000, 5000} (5,000 levels of `<div>` are 55 KB: about the largest document that fits in a 64 KiB
//! event; thorough tier: also 20,000 and 100,000) x operations {sanitize_html, Html::parse then drop, Html::parse then
//! to_string, Html::parse then sanitize_with then to_string} x element {div, b}.
use ruma_html::{sanitize_html, Html, HtmlSanitizerMode, RemoveReplyFallback, SanitizerConfig};
use serde_json::json;

use super::Report;

/// JSON texts whose nesting does not go through one JSON deserializer only: a bundled replacement (`unsigned.m.relations.
/// m.replace`) is kept as raw JSON and deserialized with a deserializer of its own, whose recursion limit starts afresh.
fn nested_json(route: &str, depth: usize) -> String {
    let first = r#"{"content":{"msgtype":"m.text","body":""},"event_id":"$a","sender":"@a:b","origin_server_ts":0,"type":"m.room.message","unsigned":{"m.relations":{"m.replace":"#;
    match route {
        // only the outermost event is complete: the inner levels recurse as soon as `unsigned` is visited
        "replace_incomplete" => format!("{first}{}0{}", r#"{"unsigned":{"m.relations":{"m.replace":"#.repeat(depth), "}}}".repeat(depth + 1)),
        // every level is a complete event
        "replace_complete" => {
            let open = r#"{"content":{"msgtype":"m.text","body":""},"event_id":"$a","sender":"@a:b","origin_server_ts":0,"type":"m.room.message","unsigned":{"m.relations":{"m.replace":"#;
            format!("{}null{}", open.repeat(depth + 1), "}}}".repeat(depth + 1))
        }
        // through the redaction event of a redacted event
        "redacted_because" => {
            let open = r#"{"content":{},"event_id":"$a","sender":"@a:b","origin_server_ts":0,"type":"m.room.redaction","redacts":"$b","unsigned":{"m.relations":{"m.replace":"#;
            format!("{}null{}", open.repeat(depth + 1), "}}}".repeat(depth + 1))
        }
        // plain nesting inside the content: stopped by the recursion limit of the one deserializer
        _ => format!(r#"{{"content":{{"msgtype":"m.text","body":"","x":{}1{}}},"event_id":"$a","sender":"@a:b","origin_server_ts":0,"type":"m.room.message"}}"#, "[".repeat(depth), "]".repeat(depth)),
    }
}

pub fn child(depth: usize, op: &str) -> bool {
    if let Some(route) = op.strip_prefix("json:") {
        let text = nested_json(route, depth);
        let h = std::thread::Builder::new()
            .stack_size(2 * 1024 * 1024)
            .spawn(move || {
                // any result is fine, as long as there is one
                let _ = serde_json::from_str::<ruma_events::AnySyncTimelineEvent>(&text).is_ok();
                let _ = serde_json::from_str::<ruma_events::AnyTimelineEvent>(&text).is_ok();
                let _ = serde_json::from_str::<ruma_common::serde::Raw<ruma_events::AnySyncTimelineEvent>>(&text).map(|r| r.deserialize().is_ok());
            })
            .unwrap();
        return h.join().is_ok();
    }
    let (el, op) = op.split_once(':').unwrap_or(("div", op));
    let doc = format!("{}x{}", format!("<{el}>").repeat(depth), format!("</{el}>").repeat(depth));
    let op = op.to_owned();
    let h = std::thread::Builder::new()
        .stack_size(2 * 1024 * 1024)
        .spawn(move || match op.as_str() {
            "sanitize_html" => {
                let _ = sanitize_html(&doc, HtmlSanitizerMode::Strict, RemoveReplyFallback::No).len();
            }
            "parse_then_drop" => {
                let h = Html::parse(&doc);
                drop(h);
            }
            "parse_then_serialize" => {
                let h = Html::parse(&doc);
                let _ = h.to_string().len();
            }
            _ => {
                let h = Html::parse(&doc);
                h.sanitize_with(&SanitizerConfig::compat().remove_reply_fallback());
                let _ = h.to_string().len();
            }
        })
        .unwrap();
    h.join().is_ok()
}

pub fn run(tier: &str) -> Report {
    let depths: &[usize] = if tier == "thorough" { &[100, 1000, 5000, 20_000, 100_000] } else { &[100, 1000, 5000] };
    let ops = ["sanitize_html", "parse_then_drop", "parse_then_serialize", "parse_sanitize_serialize"];
    let exe = std::env::current_exe().unwrap();
    let (mut n, mut f) = (0u64, vec![]);
    for &d in depths {
        for el in ["div", "b"] {
            for op in ops {
                n += 1;
                let st = std::process::Command::new(&exe).arg("--deep-html").arg(d.to_string()).arg(format!("{el}:{op}")).stderr(std::process::Stdio::null()).status();
                let ok = matches!(&st, Ok(s) if s.success());
                if !ok {
                    f.push(json!({"depth": d, "element": el, "operation": op, "observed": format!("child process ended with {:?} (stack overflow aborts the process)", st.map(|s| s.to_string()))}));
                }
            }
        }
    }
    // events nested through bundled relations: 1,500 levels of the shortest route are 64.6 KB, the size limit of an event
    let jdepths: &[usize] = if tier == "thorough" { &[1, 8, 9, 50, 127, 128, 129, 300, 800, 1500, 5000] } else { &[1, 9, 129, 300, 1500] };
    let (mut jn, mut jf) = (0u64, vec![]);
    for &d in jdepths {
        for route in ["replace_incomplete", "replace_complete", "redacted_because", "content_arrays"] {
            jn += 1;
            let st = std::process::Command::new(&exe).arg("--deep-html").arg(d.to_string()).arg(format!("json:{route}")).stderr(std::process::Stdio::null()).status();
            let ok = matches!(&st, Ok(s) if s.success());
            if !ok {
                jf.push(json!({"depth": d, "route": route, "bytes": nested_json(route, d).len(), "observed": format!("child process ended with {:?} (stack overflow aborts the process)", st.map(|s| s.to_string()))}));
            }
        }
    }
    // push rules on a long body: 12,000 words of 5 bytes are 60 KB, still an event
    let words: &[usize] = if tier == "thorough" { &[10, 1000, 5000, 12_000, 100_000] } else { &[10, 1000, 12_000] };
    let (mut pn, mut pf) = (0u64, vec![]);
    for &w in words {
        for what in ["default_ruleset", "event_match"] {
            pn += 1;
            // the second replay binary: its dependencies are built without optimisation, as cargo's dev and test profiles do
            // (from opt-level 1 on rustc turns a self tail call into a loop and the recursion cannot be seen)
            let exe0 = exe.parent().and_then(|p| p.parent()).and_then(|p| p.parent()).map(|p| p.join("replay0-target").join("debug").join("replay0")).unwrap_or_default();
            let st = std::process::Command::new(&exe0).arg(w.to_string()).arg(what).stderr(std::process::Stdio::null()).status();
            let ok = matches!(&st, Ok(s) if s.success());
            if !ok {
                pf.push(json!({"words_in_body": w, "body_bytes": w * 5, "evaluated": what, "observed": format!("child process ended with {:?} (stack overflow aborts the process)", st.map(|s| s.to_string()))}));
            }
        }
    }
    Report {
        bound: format!("push rules: bodies of {words:?} words x {{server-default ruleset with the display name \"bob\", event_match on content.body}}, in a binary whose dependencies are built at opt-level 0; HTML: nesting depths {depths:?} x 2 elements x 4 operations; event JSON: nesting depths {jdepths:?} x 4 routes (bundled replacements of incomplete / complete events, of redaction events, arrays in the content) into AnySyncTimelineEvent, AnyTimelineEvent and Raw; each case in a child process on a 2 MiB stack"),
        cases: n + jn + pn,
        obligations: vec![
            ("html_operations_on_deeply_nested_documents_do_not_exhaust_the_stack", n, f),
            ("events_nested_through_bundled_relations_do_not_exhaust_the_stack", jn, jf),
            ("push_rule_evaluation_on_long_bodies_does_not_exhaust_the_stack", pn, pf),
        ],
    }
}
