//! C17 bounded stand-in for "never exhausts the stack" on HTML: the recursive tree walks of ruma-html (clean, serialize, drop)
//! on documents nested `depth` levels deep. A stack overflow aborts the process, so every (depth, operation) pair runs in a
//! child process (`replay --deep-html <depth> <op>`) on a thread with a 2 MiB stack (the default of spawned threads);
//! the parent looks at the exit status.
//!
//! Space: depths {100, 1000, 5000} (5,000 levels of `<div>` are 55 KB: about the largest document that fits in a 64 KiB
//! event; thorough tier: also 20,000 and 100,000) x operations {sanitize_html, Html::parse then drop, Html::parse then
//! to_string, Html::parse then sanitize_with then to_string} x element {div, b}.
use ruma_html::{sanitize_html, Html, HtmlSanitizerMode, RemoveReplyFallback, SanitizerConfig};
use serde_json::{json, Value};

use super::Report;

pub fn child(depth: usize, op: &str) -> bool {
    let (el, op) = op.split_once(':').unwrap_or(("div", op));
    let doc = format!("{}x{}", format!("<{el}>").repeat(depth), format!("</{el}>").repeat(depth));
    let op = op.to_owned();
    let h = std::thread::Builder::new()
        .stack_size(2 * 1024 * 1024)
        .spawn(move || match op.as_str() {
            "sanitize_html" => {
                let _ = sanitize_html(&doc, HtmlSanitizerMode::Strict, RemoveReplyFallback::No).len();
            }
            "parse_then_drop" => {
                let h = Html::parse(&doc);
                drop(h);
            }
            "parse_then_serialize" => {
                let h = Html::parse(&doc);
                let _ = h.to_string().len();
            }
            _ => {
                let h = Html::parse(&doc);
                h.sanitize_with(&SanitizerConfig::compat().remove_reply_fallback());
                let _ = h.to_string().len();
            }
        })
        .unwrap();
    h.join().is_ok()
}

pub fn run(tier: &str) -> Report {
    let depths: &[usize] = if tier == "thorough" { &[100, 1000, 5000, 20_000, 100_000] } else { &[100, 1000, 5000] };
    let ops = ["sanitize_html", "parse_then_drop", "parse_then_serialize", "parse_sanitize_serialize"];
    let exe = std::env::current_exe().unwrap();
    let (mut n, mut f) = (0u64, vec![]);
    for &d in depths {
        for el in ["div", "b"] {
            for op in ops {
                n += 1;
                let st = std::process::Command::new(&exe).arg("--deep-html").arg(d.to_string()).arg(format!("{el}:{op}")).stderr(std::process::Stdio::null()).status();
                let ok = matches!(&st, Ok(s) if s.success());
                if !ok {
                    f.push(json!({"depth": d, "element": el, "operation": op, "observed": format!("child process ended with {:?} (stack overflow aborts the process)", st.map(|s| s.to_string()))}));
                }
            }
        }
    }
    Report {
        bound: format!("nesting depths {depths:?} x 2 elements x 4 operations, each in a child process on a 2 MiB stack"),
        cases: n,
        obligations: vec![("html_operations_on_deeply_nested_documents_do_not_exhaust_the_stack", n, f)],
    }
}
