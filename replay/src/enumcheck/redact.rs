//! C04: redact / redact_in_place / redact_content_in_place (the `RetainedKeys` plumbing with
//! `Box<dyn Fn>` is outside Verus; Kani 0.68 ICEs on it).
//!
//! Space (complete enumeration): all 2^8 RedactionRules flag vectors x event types {7 with special
//! rules, 2 others} x 3 top-level shapes x every subset of the per-type content key universe
//! (spec keys + 1 unspecified key; third_party_invite in 7 shapes (absent, three objects, null, string, array)) x redacted_because in {None, Some}.
use std::collections::BTreeMap;

use ruma_common::{
    canonical_json::{redact, redact_content_in_place, redact_in_place, RedactedBecause},
    room_version_rules::RedactionRules,
    CanonicalJsonObject, CanonicalJsonValue,
};
use serde_json::{json, Value};

use super::Report;

const TOP_ALWAYS: &[&str] = &[
    "event_id", "type", "room_id", "sender", "state_key", "content", "hashes", "signatures", "depth", "prev_events", "auth_events",
    "origin_server_ts",
];
const TOP_PRE_V11: &[&str] = &["origin", "membership", "prev_state"];
const TOP_OTHER: &[&str] = &["unsigned", "age", "x.extra", "redacts", "prev_content"];

const TYPES: &[&str] = &[
    "m.room.member", "m.room.create", "m.room.join_rules", "m.room.power_levels", "m.room.history_visibility", "m.room.redaction",
    "m.room.aliases", "m.room.message", "m.room.membe",
    // types that are NOT on the specification's list but resemble one that is: all of their content goes
    "member", "power_levels", "create", "aliases", "m.room.m.room.member", "M.ROOM.MEMBER", "m.room.members", "m.room.member ", "org.example.m.room.create", "",
];

fn rules_from_bits(b: u32) -> RedactionRules {
    let mut r = RedactionRules::V1;
    r.keep_room_aliases_aliases = b & 1 != 0;
    r.keep_room_join_rules_allow = b & 2 != 0;
    r.keep_room_member_join_authorised_via_users_server = b & 4 != 0;
    r.keep_origin_membership_prev_state = b & 8 != 0;
    r.keep_room_create_content = b & 16 != 0;
    r.keep_room_redaction_redacts = b & 32 != 0;
    r.keep_room_power_levels_invite = b & 64 != 0;
    r.keep_room_member_third_party_invite_signed = b & 128 != 0;
    r
}

/// Oracle from the spec: is `key` of the content of an event of type `ty` kept?
/// For third_party_invite the caller handles the narrowing.
fn keep_content(r: &RedactionRules, ty: &str, key: &str) -> bool {
    match ty {
        "m.room.member" => {
            key == "membership"
                || (key == "join_authorised_via_users_server" && r.keep_room_member_join_authorised_via_users_server)
                || (key == "third_party_invite" && r.keep_room_member_third_party_invite_signed)
        }
        "m.room.create" => r.keep_room_create_content || key == "creator",
        "m.room.join_rules" => key == "join_rule" || (key == "allow" && r.keep_room_join_rules_allow),
        "m.room.power_levels" => {
            ["ban", "events", "events_default", "kick", "redact", "state_default", "users", "users_default"].contains(&key)
                || (key == "invite" && r.keep_room_power_levels_invite)
        }
        "m.room.history_visibility" => key == "history_visibility",
        "m.room.redaction" => key == "redacts" && r.keep_room_redaction_redacts,
        "m.room.aliases" => key == "aliases" && r.keep_room_aliases_aliases,
        _ => false,
    }
}

fn keep_top(r: &RedactionRules, key: &str) -> bool {
    TOP_ALWAYS.contains(&key) || (TOP_PRE_V11.contains(&key) && r.keep_origin_membership_prev_state)
}

fn content_universe(ty: &str) -> Vec<&'static str> {
    match ty {
        "m.room.member" => vec!["membership", "join_authorised_via_users_server", "displayname", "x.unspecified"],
        "m.room.create" => vec!["creator", "room_version", "m.federate", "predecessor", "x.unspecified"],
        "m.room.join_rules" => vec!["join_rule", "allow", "x.unspecified"],
        "m.room.power_levels" => vec![
            "ban", "events", "events_default", "kick", "redact", "state_default", "users", "users_default", "invite", "notifications",
            "x.unspecified",
        ],
        "m.room.history_visibility" => vec!["history_visibility", "x.unspecified"],
        "m.room.redaction" => vec!["redacts", "reason", "x.unspecified"],
        "m.room.aliases" => vec!["aliases", "x.unspecified"],
        _ => vec!["body", "membership", "creator", "aliases", "redacts", "join_rule", "ban", "history_visibility", "x.unspecified"],
    }
}

fn leaf(key: &str) -> CanonicalJsonValue {
    // values with nested structure so that "values untouched" is meaningful
    let mut inner = BTreeMap::new();
    inner.insert("k".to_owned(), CanonicalJsonValue::String(format!("v-{key}")));
    inner.insert("signed".to_owned(), CanonicalJsonValue::Bool(true));
    CanonicalJsonValue::Array(vec![CanonicalJsonValue::Object(inner), CanonicalJsonValue::Null])
}

/// third_party_invite shapes: 0 absent, 1 {signed, display_name}, 2 {display_name}, 3 {}, 4 null, 5 a string, 6 an array
fn tpi(shape: u32) -> Option<CanonicalJsonValue> {
    let mut o = BTreeMap::new();
    match shape {
        0 => return None,
        // not an object: nothing inside it is listed by the specification, so the key is removed like any other
        4 => return Some(CanonicalJsonValue::Null),
        5 => return Some(CanonicalJsonValue::String("x".to_owned())),
        6 => return Some(CanonicalJsonValue::Array(vec![CanonicalJsonValue::Bool(true)])),
        1 => {
            o.insert("signed".to_owned(), leaf("signed"));
            o.insert("display_name".to_owned(), leaf("display_name"));
        }
        2 => {
            o.insert("display_name".to_owned(), leaf("display_name"));
        }
        _ => {}
    }
    Some(CanonicalJsonValue::Object(o))
}

fn fail(v: &mut Vec<Value>, x: Value) {
    if v.len() < 50 {
        v.push(x);
    }
}

fn flag_vectors(tier: &str) -> Vec<u32> {
    if tier == "thorough" {
        return (0u32..256).collect();
    }
    // quick: the 11 real room-version vectors and every single-flag flip of each
    let bits_of = |r: &RedactionRules| -> u32 {
        (r.keep_room_aliases_aliases as u32)
            | (r.keep_room_join_rules_allow as u32) << 1
            | (r.keep_room_member_join_authorised_via_users_server as u32) << 2
            | (r.keep_origin_membership_prev_state as u32) << 3
            | (r.keep_room_create_content as u32) << 4
            | (r.keep_room_redaction_redacts as u32) << 5
            | (r.keep_room_power_levels_invite as u32) << 6
            | (r.keep_room_member_third_party_invite_signed as u32) << 7
    };
    let mut v = vec![];
    for r in [RedactionRules::V1, RedactionRules::V6, RedactionRules::V8, RedactionRules::V9, RedactionRules::V11] {
        let b = bits_of(&r);
        v.push(b);
        for i in 0..8 {
            v.push(b ^ (1 << i));
        }
    }
    v.push(0);
    v.push(255);
    v.sort();
    v.dedup();
    v
}

pub fn run(tier: &str) -> Report {
    let vectors = flag_vectors(tier);
    let nthreads = 12usize;
    let chunks: Vec<Vec<u32>> = (0..nthreads).map(|t| vectors.iter().copied().skip(t).step_by(nthreads).collect()).collect();
    let tier_s = tier.to_owned();
    let handles: Vec<_> = chunks
        .into_iter()
        .map(|c| {
            let t = tier_s.clone();
            std::thread::spawn(move || run_vectors(&t, &c))
        })
        .collect();
    let mut total: Option<Report> = None;
    for h in handles {
        let r = h.join().expect("worker panicked");
        total = Some(match total {
            None => r,
            Some(mut acc) => {
                acc.cases += r.cases;
                for (a, b) in acc.obligations.iter_mut().zip(r.obligations) {
                    a.1 += b.1;
                    for x in b.2 {
                        if a.2.len() < 50 {
                            a.2.push(x);
                        }
                    }
                }
                acc
            }
        });
    }
    let mut t = total.unwrap();
    t.bound = format!("{} RedactionRules flag vectors ({}) x {}", vectors.len(),
        if tier == "thorough" { "all 2^8" } else { "the 5 distinct real room-version vectors, every single-flag flip of each, all-false, all-true" }, t.bound);
    t
}

fn run_vectors(tier: &str, vectors: &[u32]) -> Report {
    let mut cases = 0u64;
    let mut f_top = vec![];
    let mut f_content = vec![];
    let mut f_values = vec![];
    let mut f_idem = vec![];
    let mut f_entry = vec![];
    let mut f_unsigned = vec![];
    let mut f_total = vec![];
    let top_shapes: u32 = if tier == "thorough" { 5 } else { 4 };
    for &bits in vectors {
        let rules = rules_from_bits(bits);
        for ty in TYPES {
            let uni = content_universe(ty);
            let n = uni.len() as u32;
            let tpi_shapes = if *ty == "m.room.member" { 7 } else { 1 };
            for subset in 0u32..(1 << n) {
                for tshape in 0..tpi_shapes {
                    for top_shape in 0..top_shapes {
                        for because in [false, true] {
                            cases += 1;
                            // ---- build the event
                            let mut content = CanonicalJsonObject::new();
                            for (i, k) in uni.iter().enumerate() {
                                if subset & (1 << i) != 0 {
                                    content.insert((*k).to_owned(), leaf(k));
                                }
                            }
                            if let Some(t) = tpi(tshape) {
                                content.insert("third_party_invite".to_owned(), t);
                            }
                            let mut ev = CanonicalJsonObject::new();
                            ev.insert("type".to_owned(), CanonicalJsonValue::String((*ty).to_owned()));
                            let tops: Vec<&str> = match top_shape {
                                0 => TOP_ALWAYS.iter().chain(TOP_PRE_V11).chain(TOP_OTHER).copied().collect(),
                                1 => vec!["content"],
                                2 => TOP_PRE_V11.iter().chain(TOP_OTHER).copied().chain(["content"]).collect(),
                                3 => vec![],
                                _ => TOP_ALWAYS.to_vec(),
                            };
                            for k in &tops {
                                if *k == "type" {
                                    continue;
                                }
                                if *k == "content" {
                                    ev.insert("content".to_owned(), CanonicalJsonValue::Object(content.clone()));
                                } else if *k == "hashes" || *k == "signatures" || *k == "unsigned" {
                                    let mut o = BTreeMap::new();
                                    o.insert("a".to_owned(), leaf(k));
                                    if *k == "unsigned" {
                                        // the event may already carry a (stale, untrusted) redacted_because
                                        let mut old = BTreeMap::new();
                                        old.insert("event_id".to_owned(), CanonicalJsonValue::String("$old".to_owned()));
                                        o.insert("redacted_because".to_owned(), CanonicalJsonValue::Object(old));
                                    }
                                    ev.insert((*k).to_owned(), CanonicalJsonValue::Object(o));
                                } else {
                                    ev.insert((*k).to_owned(), leaf(k));
                                }
                            }
                            let has_content = tops.contains(&"content");
                            let payload = || {
                                let mut o = CanonicalJsonObject::new();
                                o.insert("event_id".to_owned(), CanonicalJsonValue::String("$r".to_owned()));
                                o
                            };
                            let rb = || if because { Some(RedactedBecause::from_json(payload())) } else { None };
                            let describe = || {
                                json!({"rules_bits": bits, "type": ty, "event": serde_json::to_value(&ev).unwrap(), "redacted_because": because})
                            };

                            // ---- run the three entry points on the real code
                            let out = match redact(ev.clone(), &rules, rb()) {
                                Ok(o) => o,
                                Err(e) => {
                                    fail(&mut f_total, json!({"input": describe(), "error": e.to_string()}));
                                    continue;
                                }
                            };
                            let mut inplace = ev.clone();
                            let r2 = redact_in_place(&mut inplace, &rules, rb());
                            if r2.is_err() || inplace != out {
                                fail(&mut f_entry, json!({"input": describe(), "why": "redact_in_place differs from redact"}));
                            }
                            if has_content {
                                let mut c = content.clone();
                                let r3 = redact_content_in_place(&mut c, &rules, *ty);
                                let out_content = out.get("content").and_then(|c| c.as_object()).cloned();
                                if r3.is_err() || Some(c) != out_content {
                                    fail(&mut f_entry, json!({"input": describe(), "why": "redact_content_in_place differs from content of redact"}));
                                }
                            }

                            // ---- top-level keys: exactly the kept ones (+ unsigned iff requested)
                            for (k, v) in &ev {
                                let kept = keep_top(&rules, k);
                                match out.get(k) {
                                    Some(ov) => {
                                        if k == "unsigned" {
                                            continue; // handled below
                                        }
                                        if !kept {
                                            fail(&mut f_top, json!({"input": describe(), "why": format!("top-level key {k} survives")}));
                                        } else if k != "content" && ov != v {
                                            fail(&mut f_values, json!({"input": describe(), "why": format!("value of {k} changed")}));
                                        }
                                    }
                                    None => {
                                        if kept {
                                            fail(&mut f_top, json!({"input": describe(), "why": format!("top-level key {k} removed")}));
                                        }
                                    }
                                }
                            }
                            for k in out.keys() {
                                if !ev.contains_key(k) && !(k == "unsigned" && because) {
                                    fail(&mut f_top, json!({"input": describe(), "why": format!("key {k} was added")}));
                                }
                            }
                            // unsigned
                            let want_unsigned = if because {
                                let mut u = CanonicalJsonObject::new();
                                u.insert("redacted_because".to_owned(), CanonicalJsonValue::Object(payload()));
                                Some(CanonicalJsonValue::Object(u))
                            } else {
                                None
                            };
                            if out.get("unsigned") != want_unsigned.as_ref() {
                                fail(&mut f_unsigned, json!({"input": describe(), "why": "unsigned is not exactly {redacted_because} iff requested"}));
                            }

                            // ---- content keys
                            if has_content {
                                let oc = out.get("content").and_then(|c| c.as_object()).cloned().unwrap_or_default();
                                for (k, v) in &content {
                                    let mut kept = keep_content(&rules, ty, k);
                                    let mut want_val = v.clone();
                                    if *ty == "m.room.member" && k == "third_party_invite" && kept && !rules.keep_room_create_content_dummy() {
                                        // narrowing: only `signed` inside; dropped if that leaves nothing
                                        let mut o = v.as_object().cloned().unwrap_or_default();
                                        o.retain(|kk, _| kk == "signed");
                                        kept = !o.is_empty();
                                        want_val = CanonicalJsonValue::Object(o);
                                    }
                                    match oc.get(k) {
                                        Some(ov) => {
                                            if !kept {
                                                fail(&mut f_content, json!({"input": describe(), "why": format!("content key {k} survives")}));
                                            } else if *ov != want_val {
                                                fail(&mut f_values, json!({"input": describe(), "why": format!("content value of {k} changed")}));
                                            }
                                        }
                                        None => {
                                            if kept {
                                                fail(&mut f_content, json!({"input": describe(), "why": format!("content key {k} removed")}));
                                            }
                                        }
                                    }
                                }
                                for k in oc.keys() {
                                    if !content.contains_key(k) {
                                        fail(&mut f_content, json!({"input": describe(), "why": format!("content key {k} was added")}));
                                    }
                                }
                            }

                            // ---- idempotence (second redaction without redacted_because changes nothing but
                            // `unsigned`, which redaction strips unless asked to attach it)
                            match redact(out.clone(), &rules, rb()) {
                                Ok(twice) => {
                                    if twice != out {
                                        fail(&mut f_idem, json!({"input": describe(), "why": "redact(redact(e)) != redact(e)",
                                            "once": serde_json::to_value(&out).unwrap(), "twice": serde_json::to_value(&twice).unwrap()}));
                                    }
                                }
                                Err(e) => fail(&mut f_idem, json!({"input": describe(), "why": format!("second redaction fails: {e}")})),
                            }
                        }
                    }
                }
            }
        }
    }
    Report {
        bound: format!(
            "{} event types x every subset of the per-type content key universe (<= 11 keys incl. one unspecified key) x 7 third_party_invite shapes (member only; incl. values that are not objects) x {} top-level shapes x redacted_because in {{absent, present}}",
            TYPES.len(), top_shapes
        ),
        cases,
        obligations: vec![
            ("redact_ok_on_wellformed", cases, f_total),
            ("top_level_keys_exact", cases, f_top),
            ("content_keys_exact", cases, f_content),
            ("values_untouched", cases, f_values),
            ("unsigned_only_redacted_because", cases, f_unsigned),
            ("idempotent", cases, f_idem),
            ("entry_points_agree", cases, f_entry),
        ],
    }
}

trait Dummy {
    fn keep_room_create_content_dummy(&self) -> bool;
}
impl Dummy for RedactionRules {
    fn keep_room_create_content_dummy(&self) -> bool {
        false
    }
}
