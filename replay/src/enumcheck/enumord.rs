//! C19 bounded stand-in for the comparison clause ("equality and ordering agree with the string form") on the REAL
//! types: for every string enum of the list below that implements `Ord`, `cmp` / `partial_cmp` / `==` of two values built
//! from strings are compared with the comparison of their string forms.
//!
//! The Verus units prove this for all strings where the comparison impls come from the *AsRefStr derives; this module is
//! the part that yields concrete inputs, and the only part that sees enums whose `Ord` is the structural derive.
//!
//! Space: per enum, all ordered pairs over { every specified spelling of the enum (committed table
//! expected/enum_spellings.json), each spelling without its last character, each spelling + "x", "", "a", "m", "m.", "z",
//! "M.READ", "é" }.
use std::collections::BTreeMap;

use serde_json::{json, Value};

use super::Report;

fn strings(unit: &str, name: &str) -> Vec<String> {
    let table: Value = serde_json::from_str(include_str!("../../../expected/enum_spellings.json")).unwrap();
    let mut out: Vec<String> = vec!["".into(), "a".into(), "m".into(), "m.".into(), "z".into(), "M.READ".into(), "é".into()];
    if let Some(rows) = table.get(unit).and_then(|u| u.get(name)).and_then(|r| r.as_array()) {
        for row in rows {
            if let Some(s) = row.get(0).and_then(|s| s.as_str()) {
                out.push(s.to_owned());
                out.push(format!("{s}x"));
                let mut t = s.to_owned();
                t.pop();
                out.push(t);
            }
        }
    }
    out.sort();
    out.dedup();
    out
}

struct Acc {
    n: u64,
    per_enum: BTreeMap<String, u64>,
    f_ord: Vec<Value>,
    f_eq: Vec<Value>,
    f_panic: Vec<Value>,
}

fn check<T>(acc: &mut Acc, unit: &str, name: &str)
where
    T: Ord + PartialEq + for<'a> From<&'a str> + ToString,
{
    let ss = strings(unit, name);
    let r = std::panic::catch_unwind(|| {
        let mut n = 0u64;
        let (mut ford, mut feq): (Vec<Value>, Vec<Value>) = (vec![], vec![]);
        for a in &ss {
            for b in &ss {
                n += 1;
                let (x, y) = (T::from(a.as_str()), T::from(b.as_str()));
                let (sx, sy) = (x.to_string(), y.to_string());
                let want = sx.cmp(&sy);
                let got = x.cmp(&y);
                let gotp = x.partial_cmp(&y);
                if (got != want || gotp != Some(want)) && ford.len() < 3 {
                    ford.push(json!({"enum": name, "a": a, "b": b, "string_forms": [sx, sy], "string_order": format!("{want:?}"),
                        "cmp": format!("{got:?}"), "partial_cmp": format!("{gotp:?}")}));
                }
                if (x == y) != (sx == sy) && feq.len() < 3 {
                    feq.push(json!({"enum": name, "a": a, "b": b, "string_forms": [sx, sy], "eq": x == y}));
                }
            }
        }
        (n, ford, feq)
    });
    match r {
        Ok((n, ford, feq)) => {
            acc.n += n;
            acc.per_enum.insert(name.to_owned(), n);
            acc.f_ord.extend(ford);
            acc.f_eq.extend(feq);
        }
        Err(_) => acc.f_panic.push(json!({"enum": name, "observed": "panic"})),
    }
}

pub fn run(_tier: &str) -> Report {
    let mut acc = Acc { n: 0, per_enum: BTreeMap::new(), f_ord: vec![], f_eq: vec![], f_panic: vec![] };
    use ruma_common::push as p;
    check::<ruma_common::DeviceKeyAlgorithm>(&mut acc, "enums_common", "DeviceKeyAlgorithm");
    check::<ruma_common::EventEncryptionAlgorithm>(&mut acc, "enums_common", "EventEncryptionAlgorithm");
    check::<ruma_common::KeyDerivationAlgorithm>(&mut acc, "enums_common", "KeyDerivationAlgorithm");
    check::<ruma_common::OneTimeKeyAlgorithm>(&mut acc, "enums_common", "OneTimeKeyAlgorithm");
    check::<ruma_common::SigningKeyAlgorithm>(&mut acc, "enums_common", "SigningKeyAlgorithm");
    check::<p::PredefinedContentRuleId>(&mut acc, "enums_common", "PredefinedContentRuleId");
    check::<p::PredefinedOverrideRuleId>(&mut acc, "enums_common", "PredefinedOverrideRuleId");
    check::<p::PredefinedUnderrideRuleId>(&mut acc, "enums_common", "PredefinedUnderrideRuleId");
    check::<p::RuleKind>(&mut acc, "enums_common", "RuleKind");
    check::<ruma_events::secret::request::SecretName>(&mut acc, "enums_events", "SecretName");
    check::<ruma_events::receipt::ReceiptType>(&mut acc, "enums_events", "ReceiptType");
    check::<ruma_events::EphemeralRoomEventType>(&mut acc, "enums_events", "EphemeralRoomEventType");
    check::<ruma_events::GlobalAccountDataEventType>(&mut acc, "enums_events", "GlobalAccountDataEventType");
    check::<ruma_events::MessageLikeEventType>(&mut acc, "enums_events", "MessageLikeEventType");
    check::<ruma_events::RoomAccountDataEventType>(&mut acc, "enums_events", "RoomAccountDataEventType");
    check::<ruma_events::StateEventType>(&mut acc, "enums_events", "StateEventType");
    check::<ruma_events::TimelineEventType>(&mut acc, "enums_events", "TimelineEventType");
    check::<ruma_events::ToDeviceEventType>(&mut acc, "enums_events", "ToDeviceEventType");
    check::<ruma_client_api::uiaa::AuthType>(&mut acc, "enums_client_api", "AuthType");
    check::<ruma_client_api::discovery::discover_support::ContactRole>(&mut acc, "enums_client_api", "ContactRole");
    check::<ruma_client_api::search::search_events::v3::GroupingKey>(&mut acc, "enums_client_api", "GroupingKey");
    check::<ruma_client_api::threads::get_threads::v1::IncludeThreads>(&mut acc, "enums_client_api", "IncludeThreads");
    check::<ruma_client_api::receipt::create_receipt::v3::ReceiptType>(&mut acc, "enums_client_api", "ReceiptType");
    let n = acc.n;
    Report {
        bound: format!("{} string enums implementing Ord x all ordered pairs of (specified spellings, each without its last character, each + \"x\", 7 generic strings): {:?}", acc.per_enum.len(), acc.per_enum),
        cases: n,
        obligations: vec![
            ("ordering_agrees_with_the_string_form", n, acc.f_ord),
            ("equality_agrees_with_the_string_form", n, acc.f_eq),
            ("comparisons_never_panic", n, acc.f_panic),
        ],
    }
}
