//! C16 / C17 bounded stand-in for the multipart/mixed media responses of the federation API (`get_content`): the hand-written
//! body splitter works on bytes sent by a remote server.
//!  * round trip: Response -> http::Response (OutgoingResponse) -> Response (IncomingResponse) gives the same file bytes, content
//!    type, Content-Disposition and location, for files that contain the boundary-like texts, CR / LF and non-UTF-8 bytes;
//!  * never panics: every sequence of up to 5 body fragments (boundary with and without leading CRLF, final boundary, header
//!    line, empty line, JSON part, text) under a matching `boundary` parameter.
use ruma_common::{
    api::{IncomingResponse, OutgoingResponse},
    http_headers::{ContentDisposition, ContentDispositionType},
};
use ruma_federation_api::authenticated_media::{get_content::v1::Response, Content, ContentMetadata, FileOrLocation};
use serde_json::{json, Value};

use super::Report;

fn fail(v: &mut Vec<Value>, x: Value) {
    if v.len() < 25 {
        v.push(x);
    }
}

pub fn run(tier: &str) -> Report {
    let (mut n, mut f_rt, mut f_panic) = (0u64, vec![], vec![]);
    // ---- round trip
    let files: Vec<Vec<u8>> = vec![
        b"".to_vec(), b"plain".to_vec(), b"\r\n".to_vec(), b"\r\n--".to_vec(), b"line1\r\nline2\n\nline3".to_vec(), vec![0, 159, 146, 150, 255], "s\u{233d}me UTF-8 \u{164}ext".as_bytes().to_vec(),
        b"--not-the-boundary\r\nContent-Type: x\r\n\r\n".to_vec(),
    ];
    let names: Vec<Option<&str>> = vec![None, Some("file.txt"), Some("a b\"c.txt"), Some("L'\u{e9}t\u{e9}.png")];
    for file in &files {
        for name in &names {
            for ctype in ["text/plain", "application/octet-stream; charset=x"] {
                n += 1;
                let cd = ContentDisposition::new(ContentDispositionType::Attachment).with_filename(name.map(|s| s.to_owned()));
                let resp = Response::new(ContentMetadata::new(), FileOrLocation::File(Content::new(file.clone(), ctype.to_owned(), cd.clone())));
                let r = std::panic::catch_unwind(std::panic::AssertUnwindSafe(|| {
                    let http: http::Response<Vec<u8>> = resp.try_into_http_response().map_err(|e| e.to_string())?;
                    Response::try_from_http_response(http).map_err(|e| e.to_string())
                }));
                match r {
                    Err(_) => fail(&mut f_panic, json!({"file": String::from_utf8_lossy(file), "filename": name, "observed": "panic in the round trip"})),
                    Ok(Err(e)) => fail(&mut f_rt, json!({"file": String::from_utf8_lossy(file), "filename": name, "observed": e})),
                    Ok(Ok(back)) => match back.content {
                        FileOrLocation::File(c) if c.file == *file && c.content_type.as_deref() == Some(ctype) && c.content_disposition.as_ref() == Some(&cd) => {}
                        other => fail(&mut f_rt, json!({"file": String::from_utf8_lossy(file), "filename": name, "decoded": format!("{other:?}")})),
                    },
                }
            }
        }
    }
    for loc in ["https://cdn.example/x", "mxc://a/b", ""] {
        n += 1;
        let resp = Response::new(ContentMetadata::new(), FileOrLocation::Location(loc.to_owned()));
        let r = std::panic::catch_unwind(std::panic::AssertUnwindSafe(|| {
            let http: http::Response<Vec<u8>> = resp.try_into_http_response().map_err(|e| e.to_string())?;
            Response::try_from_http_response(http).map_err(|e| e.to_string())
        }));
        match r {
            Err(_) => fail(&mut f_panic, json!({"location": loc, "observed": "panic in the round trip"})),
            Ok(Ok(Response { content: FileOrLocation::Location(l), .. })) if l == loc => {}
            Ok(other) => fail(&mut f_rt, json!({"location": loc, "decoded": format!("{other:?}")})),
        }
    }
    // ---- bodies built from fragments never panic
    let frags: [&[u8]; 9] = [b"--abcdef", b"\r\n--abcdef", b"--abcdef--", b"\r\n", b"\n", b"Content-Type: application/json\r\n", b"{}", b"text", b"Content-Disposition: inline; =a;\r\n"];
    let depth = if tier == "thorough" { 6 } else { 5 };
    let mut layer: Vec<Vec<u8>> = vec![vec![]];
    let mut bodies: Vec<Vec<u8>> = vec![vec![]];
    for _ in 0..depth {
        let mut next = vec![];
        for b in &layer {
            for f in frags {
                let mut x = b.clone();
                x.extend_from_slice(f);
                next.push(x);
            }
        }
        bodies.extend(next.iter().cloned());
        layer = next;
    }
    for body in &bodies {
        for ct in ["multipart/mixed; boundary=abcdef", "multipart/mixed; boundary=\"abcdef\"", "multipart/mixed"] {
            n += 1;
            let http = http::Response::builder().status(200).header("content-type", ct).body(body.clone()).unwrap();
            if std::panic::catch_unwind(std::panic::AssertUnwindSafe(|| Response::try_from_http_response(http).is_ok())).is_err() {
                fail(&mut f_panic, json!({"content_type": ct, "body": String::from_utf8_lossy(body), "observed": "panic while decoding the response"}));
            }
        }
    }
    Report {
        bound: format!("{} files x {} file names x 2 content types + 3 locations (round trip); every sequence of up to {depth} of 9 body fragments x 3 Content-Type values ({} bodies)", files.len(), names.len(), bodies.len()),
        cases: n,
        obligations: vec![
            ("multipart_media_responses_survive_the_wire", n, f_rt),
            ("multipart_media_response_decoding_never_panics", n, f_panic),
        ],
    }
}
