//! C16 / C17 bounded stand-in for the federation `Authorization: X-Matrix` header (ruma-federation-api
//! `XMatrix` Display / parse / HeaderValue conversions over the `http-auth` and `headers` dependencies) and for the
//! quoted-string helpers of ruma-common::http_headers (chars()/replace/format! based, outside Verus).
//!
//!  * every XMatrix value of the space, formatted and parsed back (as text and through HeaderValue), is equal
//!    field by field, and re-encoding the parsed value gives the identical header;
//!  * quote_ascii_string_if_required(v) is v itself iff v is a non-empty token, otherwise a quoted string whose
//!    content unescapes (unescape_string) to v, for every v of the space;
//!  * XMatrix::parse never panics on mutated header texts.
//!
//! Space: origin / destination from 9 server names (ports, IPv6 literals, IPv4, mixed case) x destination
//! {absent, present} x 6 key ids x 5 signatures (byte strings whose base64 uses '+', '/', '=' and none);
//! quoting: every string of length 0..4 over {a, '"', '\', ' ', ':', ',', '='}; parsing: every concatenation of up to
//! 4 fragments from a 12-fragment list after "X-Matrix ".
use http::HeaderValue;
use ruma_common::{
    http_headers::{is_token_string, quote_ascii_string_if_required, unescape_string},
    serde::Base64,
    OwnedServerName, OwnedServerSigningKeyId,
};
use ruma_federation_api::authentication::XMatrix;
use serde_json::{json, Value};

use super::Report;

fn fail(v: &mut Vec<Value>, x: Value) {
    if v.len() < 30 {
        v.push(x);
    }
}

fn same(a: &XMatrix, b: &XMatrix) -> bool {
    a.origin == b.origin && a.destination == b.destination && a.key == b.key && a.sig.as_bytes() == b.sig.as_bytes()
}

pub fn run(_tier: &str) -> Report {
    let servers = ["a.org", "a.org:8448", "A-b.C", "1.2.3.4", "1.2.3.4:80", "[::1]", "[::1]:8448", "[2001:db8::1]:1", "localhost"];
    let keys = ["ed25519:1", "ed25519:abc_DEF", "ed25519:a", "ed25519:0", "ed25519:auto", "curve25519:AAAA"];
    let sigs: [&[u8]; 5] = [b"", b"\xfb\xff", b"\xff\xff\xfe", b"a", b"hello world, hello"];
    let (mut n, mut f_rt, mut f_reenc, mut f_panic) = (0u64, vec![], vec![], vec![]);
    for o in servers {
        for d in std::iter::once(None).chain(servers.iter().map(Some)) {
            for k in keys {
                for s in sigs {
                    n += 1;
                    let r = std::panic::catch_unwind(|| {
                        let origin = OwnedServerName::try_from(o).unwrap();
                        let key = OwnedServerSigningKeyId::try_from(k).unwrap();
                        let sig = Base64::new(s.to_vec());
                        let mut x = XMatrix::new(origin, OwnedServerName::try_from(*d.unwrap_or(&"x.org")).unwrap(), key, sig);
                        if d.is_none() {
                            x.destination = None;
                        }
                        let text = x.to_string();
                        let hv = HeaderValue::from(&x);
                        let p1 = XMatrix::parse(&text).map_err(|e| e.to_string());
                        let p2 = XMatrix::try_from(&hv).map_err(|e| e.to_string());
                        let ok = match (&p1, &p2) {
                            (Ok(a), Ok(b)) => same(a, &x) && same(b, &x),
                            _ => false,
                        };
                        let reenc = match &p1 {
                            Ok(a) => Some(a.to_string() == text && HeaderValue::from(a) == hv),
                            Err(_) => None,
                        };
                        (text, ok, p1.err().or(p2.err()), reenc)
                    });
                    match r {
                        Err(_) => fail(&mut f_panic, json!({"origin": o, "destination": d, "key": k, "observed": "panic"})),
                        Ok((text, ok, err, reenc)) => {
                            if !ok {
                                fail(&mut f_rt, json!({"origin": o, "destination": d, "key": k, "sig_bytes": s, "header": text, "observed": err.unwrap_or("parsed to a different value".into())}));
                            }
                            if reenc == Some(false) {
                                fail(&mut f_reenc, json!({"header": text, "observed": "re-encoding the parsed value gives a different header"}));
                            }
                        }
                    }
                }
            }
        }
    }
    // quoting helpers
    let alpha = ['a', '"', '\\', ' ', ':', ',', '='];
    let mut strs = vec![String::new()];
    let mut layer = vec![String::new()];
    for _ in 0..4 {
        let mut next = vec![];
        for t in &layer {
            for c in alpha {
                next.push(format!("{t}{c}"));
            }
        }
        strs.extend(next.iter().cloned());
        layer = next;
    }
    let mut f_quote = vec![];
    let mut nq = 0u64;
    for v in &strs {
        nq += 1;
        let r = std::panic::catch_unwind(|| {
            let q = quote_ascii_string_if_required(v).into_owned();
            let tok = !v.is_empty() && is_token_string(v);
            if tok {
                return (q.clone(), q == *v);
            }
            let ok = q.len() >= 2 && q.starts_with('"') && q.ends_with('"') && {
                let inner = &q[1..q.len() - 1];
                // no unescaped quote inside, and unescaping gives the value back
                let mut esc = false;
                let mut clean = true;
                for c in inner.chars() {
                    if esc {
                        esc = false;
                    } else if c == '\\' {
                        esc = true;
                    } else if c == '"' {
                        clean = false;
                    }
                }
                clean && !esc && unescape_string(inner) == *v
            };
            (q, ok)
        });
        match r {
            Err(_) => fail(&mut f_panic, json!({"value": v, "observed": "panic in quote_ascii_string_if_required / unescape_string"})),
            Ok((q, ok)) => {
                if !ok {
                    fail(&mut f_quote, json!({"value": v, "quoted": q}));
                }
            }
        }
    }
    // parsing of mutated header texts never panics
    let frags = ["origin=a.org", "key=\"ed25519:1\"", "sig=\"YQ\"", ",", " ", "destination=\"[::1]:1\"", "=", "\"", "\\", "sig=\"\\\"\"", "ORIGIN=b", "X-Matrix "];
    let mut texts = vec![String::new()];
    let mut layer = vec![String::new()];
    for _ in 0..4 {
        let mut next = vec![];
        for t in &layer {
            for f in frags {
                next.push(format!("{t}{f}"));
            }
        }
        texts.extend(next.iter().cloned());
        layer = next;
    }
    let mut np = 0u64;
    for t in &texts {
        for pre in ["X-Matrix ", "x-matrix ", "Bearer x, X-Matrix ", ""] {
            np += 1;
            let text = format!("{pre}{t}");
            if std::panic::catch_unwind(|| XMatrix::parse(&text).map(|x| x.to_string())).is_err() {
                fail(&mut f_panic, json!({"header": text, "observed": "panic in XMatrix::parse"}));
            }
        }
    }
    // Metadata::authorization_header: the full finite domain AuthScheme x SendAccessToken kind (one fixed token)
    let mut f_auth = vec![];
    let mut na = 0u64;
    {
        use ruma_common::api::{AuthScheme, MatrixVersion, Metadata, SendAccessToken, VersionHistory};
        const HISTORY: VersionHistory = VersionHistory::new(&[], &[(MatrixVersion::V1_0, "/p")], None, None);
        let schemes = [
            ("None", AuthScheme::None),
            ("AccessToken", AuthScheme::AccessToken),
            ("AccessTokenOptional", AuthScheme::AccessTokenOptional),
            ("AppserviceToken", AuthScheme::AppserviceToken),
            ("AppserviceTokenOptional", AuthScheme::AppserviceTokenOptional),
            ("ServerSignatures", AuthScheme::ServerSignatures),
        ];
        for (sname, scheme) in schemes {
            for (tname, tok) in [
                ("IfRequired", SendAccessToken::IfRequired("tok")),
                ("Always", SendAccessToken::Always("tok")),
                ("Appservice", SendAccessToken::Appservice("tok")),
                ("None", SendAccessToken::None),
            ] {
                na += 1;
                let md = Metadata { method: http::Method::GET, rate_limited: false, authentication: scheme, history: HISTORY };
                // what the scheme prescribes: Some(true) = Bearer header, Some(false) = no header, None = error (token missing)
                let has_user_token = tname != "None";
                let has_as_token = tname == "Appservice" || tname == "Always";
                let want: Option<bool> = match sname {
                    "None" => Some(tname == "Always"),
                    "AccessToken" => if has_user_token { Some(true) } else { None },
                    "AccessTokenOptional" => Some(has_user_token),
                    "AppserviceToken" => if has_as_token { Some(true) } else { None },
                    "AppserviceTokenOptional" => Some(has_as_token),
                    _ => Some(false),
                };
                let got = match md.authorization_header(tok) {
                    Ok(Some((name, value))) => {
                        if name == http::header::AUTHORIZATION && value == "Bearer tok" { Some(true) } else {
                            fail(&mut f_auth, json!({"scheme": sname, "token": tname, "observed": format!("{name:?}: {value:?}")}));
                            continue;
                        }
                    }
                    Ok(None) => Some(false),
                    Err(_) => None,
                };
                if got != want {
                    fail(&mut f_auth, json!({"scheme": sname, "token": tname, "observed": format!("{got:?}"), "expected": format!("{want:?}"),
                        "legend": "Some(true) = `Authorization: Bearer tok`, Some(false) = no header, None = NeedsAuthentication error"}));
                }
            }
        }
    }
    Report {
        bound: format!(
            "{n} XMatrix values (9 server names x destination absent/9 x 6 key ids x 5 signatures); {nq} strings of length 0..4 over {{a,\",\\,space,:,comma,=}} for the quoting helpers; {np} mutated header texts (<= 4 of 12 fragments, 4 prefixes); authorization_header: all 6 AuthScheme x 4 SendAccessToken kinds"
        ),
        cases: n + nq + np,
        obligations: vec![
            ("xmatrix_header_survives_format_then_parse", n, f_rt),
            ("xmatrix_reencoding_is_identical", n, f_reenc),
            ("quoted_string_helpers_round_trip", nq, f_quote),
            ("authorization_header_follows_the_endpoint_auth_scheme", na, f_auth),
            ("xmatrix_parsing_and_quoting_never_panic", n + nq + np, f_panic),
        ],
    }
}
