//! C17 bounded stand-in ("never fails to terminate", JSON): the public content and event types that carry hand-written or
//! attribute-driven serde code are deserialized DIRECTLY from text (a streaming deserializer, not a buffered value) for
//! every byte-prefix of valid texts and for single-token mutations of them, under a watchdog: one worker thread walks the
//! inputs and reports progress; if no input completes within 10 seconds the input in progress is reported as
//! non-terminating. Panics are caught per input.
//!
//! Also federation get_event responses with 0, 1, 2 and malformed `pdus`, and the error responses of the client-server API (`Error::from_http_response`: 6 bodies x 4 statuses x 7 Retry-After
//! values, bodies truncated and mutated the same way).
//!
//! Space: (14 types x their seed texts + every generated event of the C18 family through the typed event enums) x (every prefix cut on a char boundary + each of 9 replacement tokens at every
//! position of a `"`-delimited string or number token).
use std::{sync::mpsc, time::Duration};

use ruma_events::{
    room::{
        join_rules::{AllowRule, JoinRule, Restricted, RoomJoinRulesEventContent},
        member::RoomMemberEventContent,
        message::RoomMessageEventContent,
        power_levels::RoomPowerLevelsEventContent,
        redaction::OriginalRoomRedactionEvent,
    },
    receipt::ReceiptEventContent,
    AnyStateEvent, AnySyncTimelineEvent, AnyTimelineEvent, AnyToDeviceEvent,
};
use serde_json::{json, Value};

use super::Report;

type Case = (&'static str, String, fn(&str) -> bool);

fn de<T: serde::de::DeserializeOwned>(s: &str) -> bool {
    serde_json::from_str::<T>(s).is_ok()
}

fn inputs() -> Vec<Case> {
    let allow = r#"{"allow":[{"type":"m.room_membership","room_id":"!a:b"},{"type":"org.x","x":[1,{"y":null}]},5,"s"]}"#;
    let jr = r#"{"join_rule":"restricted","allow":[{"type":"m.room_membership","room_id":"!a:b"},7]}"#;
    let pl = r#"{"ban":50,"events":{"m.room.name":"60","m.x":1},"users":{"@a:b":100},"notifications":{"room":20},"invite":0}"#;
    let member = r#"{"membership":"invite","displayname":"x","third_party_invite":{"display_name":"d","signed":{"mxid":"@a:b","token":"t","signatures":{"s":{"ed25519:0":"c2ln"}}}}}"#;
    let msg = r#"{"msgtype":"m.text","body":"b","format":"org.matrix.custom.html","formatted_body":"<b>b</b>","m.relates_to":{"m.in_reply_to":{"event_id":"$e"}},"m.mentions":{"user_ids":["@a:b"],"room":true}}"#;
    let receipt = r#"{"$e:s":{"m.read":{"@a:s":{"ts":1,"thread_id":"main"}},"m.read.private":{"@b:s":{}}}}"#;
    let ev = |ty: &str, content: &str, extra: &str| format!(r#"{{"type":"{ty}","content":{content},"event_id":"$e:s","sender":"@a:s","origin_server_ts":1,"room_id":"!r:s"{extra},"unsigned":{{"age":1}}}}"#);
    vec![
        ("Restricted", allow.to_owned(), de::<Restricted>),
        ("AllowRule", r#"{"type":"m.room_membership","room_id":"!a:b"}"#.to_owned(), de::<AllowRule>),
        ("JoinRule", jr.to_owned(), de::<JoinRule>),
        ("RoomJoinRulesEventContent", jr.to_owned(), de::<RoomJoinRulesEventContent>),
        ("RoomPowerLevelsEventContent", pl.to_owned(), de::<RoomPowerLevelsEventContent>),
        ("RoomMemberEventContent", member.to_owned(), de::<RoomMemberEventContent>),
        ("RoomMessageEventContent", msg.to_owned(), de::<RoomMessageEventContent>),
        ("ReceiptEventContent", receipt.to_owned(), de::<ReceiptEventContent>),
        ("OriginalRoomRedactionEvent", ev("m.room.redaction", r#"{"redacts":"$x","reason":"r"}"#, r#","redacts":"$x""#), de::<OriginalRoomRedactionEvent>),
        ("AnyTimelineEvent(join_rules)", ev("m.room.join_rules", jr, r#","state_key":"""#), de::<AnyTimelineEvent>),
        ("AnyStateEvent(power_levels)", ev("m.room.power_levels", pl, r#","state_key":"""#), de::<AnyStateEvent>),
        ("AnySyncTimelineEvent(message)", ev("m.room.message", msg, ""), de::<AnySyncTimelineEvent>),
        ("AnyTimelineEvent(member)", ev("m.room.member", member, r#","state_key":"@a:b""#), de::<AnyTimelineEvent>),
        ("AnyToDeviceEvent(dummy)", r#"{"type":"m.dummy","sender":"@a:s","content":{"org.matrix.msgid":"1"}}"#.to_owned(), de::<AnyToDeviceEvent>),
    ]
}

/// every prefix, and each scalar token replaced by each of the replacement tokens
fn variants(text: &str) -> Vec<String> {
    let mut out: Vec<String> = (0..=text.len()).filter(|i| text.is_char_boundary(*i)).map(|i| text[..i].to_owned()).collect();
    let repl = ["5", "null", "[]", "{}", "[5", "{\"a\":", "\"\"", "true", "1e999"];
    let b = text.as_bytes();
    let mut i = 0;
    while i < b.len() {
        let (s, e) = if b[i] == b'"' {
            let mut j = i + 1;
            while j < b.len() && b[j] != b'"' {
                j += if b[j] == b'\\' { 2 } else { 1 };
            }
            (i, (j + 1).min(b.len()))
        } else if b[i].is_ascii_digit() {
            let mut j = i;
            while j < b.len() && b[j].is_ascii_digit() {
                j += 1;
            }
            (i, j)
        } else {
            i += 1;
            continue;
        };
        // values only (a string followed by ':' is a key: replacing it as well is a legitimate mutation, keep it)
        for r in repl {
            out.push(format!("{}{}{}", &text[..s], r, &text[e..]));
        }
        i = e;
    }
    out
}

pub fn run(_tier: &str) -> Report {
    let cases = inputs();
    let mut all: Vec<(&'static str, String, fn(&str) -> bool)> = vec![];
    for (name, text, f) in &cases {
        for v in variants(text) {
            all.push((name, v, *f));
        }
    }
    // every generated event of the C18 family (41 type shapes), through the typed event enums
    let thorough = _tier == "thorough";
    for (i, (kind, text)) in super::events::event_texts().into_iter().enumerate() {
        let (name, f): (&'static str, fn(&str) -> bool) = match kind {
            0 => ("AnySyncTimelineEvent / AnyTimelineEvent", |s| de::<AnyTimelineEvent>(s) | de::<AnySyncTimelineEvent>(s)),
            1 => ("AnyEphemeralRoomEvent", de::<ruma_events::AnyEphemeralRoomEvent>),
            2 => ("AnyGlobalAccountDataEvent", de::<ruma_events::AnyGlobalAccountDataEvent>),
            _ => ("AnyToDeviceEvent", de::<AnyToDeviceEvent>),
        };
        // quick tier: prefixes of every event, token mutations of every 4th
        let vs = if thorough || i % 4 == 0 { variants(&text) } else { (0..=text.len()).filter(|j| text.is_char_boundary(*j)).map(|j| text[..j].to_owned()).collect() };
        for v in vs {
            all.push((name, v, f));
        }
    }
    // error responses of the client-server API: status x Retry-After header x body (prefixes and token mutations)
    let err_bodies = [
        r#"{"errcode":"M_LIMIT_EXCEEDED","error":"slow down","retry_after_ms":2000}"#,
        r#"{"errcode":"M_UNKNOWN_TOKEN","error":"x","soft_logout":true}"#,
        r#"{"errcode":"M_INCOMPATIBLE_ROOM_VERSION","error":"x","room_version":"7"}"#,
        r#"{"errcode":"M_RESOURCE_LIMIT_EXCEEDED","error":"x","admin_contact":"mailto:a@b"}"#,
        r#"{"errcode":"M_WRONG_ROOM_KEYS_VERSION","error":"x","current_version":"42"}"#,
        r#"{"errcode":"ORG.EXAMPLE.CUSTOM","error":"x","extra":{"a":[1,2]}}"#,
    ];
    for b in err_bodies {
        for v in variants(b) {
            all.push(("ruma_client_api::Error::from_http_response", v, |s| {
                let mut any = false;
                for status in [400u16, 401, 429, 500] {
                    for ra in [None, Some("2"), Some("-1"), Some("99999999999999999999999"), Some("Wed, 21 Oct 2015 07:28:00 GMT"), Some("Wed, 21 Oct 99999 07:28:00 GMT"), Some("x")] {
                        let mut rb = http::Response::builder().status(status);
                        if let Some(ra) = ra {
                            rb = rb.header(http::header::RETRY_AFTER, ra);
                        }
                        let resp = rb.body(s.as_bytes().to_vec()).unwrap();
                        let e = <ruma_client_api::Error as ruma_common::api::EndpointError>::from_http_response(resp);
                        any |= matches!(e.body, ruma_client_api::error::ErrorBody::Standard { .. });
                    }
                }
                any
            }));
        }
    }
    // federation responses whose lists have a prescribed length: none, one, two elements (structure-level mutations), and
    // the truncations / token mutations of each
    let pdu = r#"{"type":"m.room.message","room_id":"!r:s","sender":"@a:s","origin_server_ts":1,"depth":1,"prev_events":[],"auth_events":[],"content":{"body":"b","msgtype":"m.text"},"hashes":{"sha256":"aGFzaA"},"signatures":{}}"#;
    for pdus in [String::new(), pdu.to_owned(), format!("{pdu},{pdu}"), "1".to_owned(), "null".to_owned()] {
        let body = format!(r#"{{"origin":"s.org","origin_server_ts":5,"pdus":[{pdus}]}}"#);
        for v in variants(&body) {
            all.push(("ruma_federation_api::event::get_event::v1::Response::try_from_http_response", v, |s| {
                use ruma_common::api::IncomingResponse;
                let resp = http::Response::builder().status(200).header(http::header::CONTENT_TYPE, "application/json").body(s.as_bytes().to_vec()).unwrap();
                ruma_federation_api::event::get_event::v1::Response::try_from_http_response(resp).is_ok()
            }));
        }
    }
    let total = all.len() as u64;
    let (tx, rx) = mpsc::channel::<(usize, Option<bool>)>();
    let work = all.clone();
    std::thread::spawn(move || {
        for (i, (_, text, f)) in work.iter().enumerate() {
            let r = std::panic::catch_unwind(|| f(text));
            if tx.send((i, r.ok())).is_err() {
                return;
            }
        }
    });
    let (mut f_hang, mut f_panic, mut accepted) = (vec![], vec![], 0u64);
    let mut done = 0usize;
    while done < all.len() {
        match rx.recv_timeout(Duration::from_secs(10)) {
            Ok((i, r)) => {
                done = i + 1;
                match r {
                    None => {
                        if f_panic.len() < 20 {
                            f_panic.push(json!({"type": all[i].0, "text": all[i].1, "observed": "panic"}));
                        }
                    }
                    Some(true) => accepted += 1,
                    Some(false) => {}
                }
            }
            Err(_) => {
                f_hang.push(json!({"type": all[done].0, "text": all[done].1, "observed": "no result within 10 seconds: deserialization does not terminate"}));
                break;
            }
        }
    }
    let mut f_vac: Vec<Value> = vec![];
    if accepted == 0 && f_hang.is_empty() {
        f_vac.push(json!({"observed": "no input was accepted: the seed texts are not valid"}));
    }
    f_panic.extend(f_vac);
    Report {
        bound: format!("{} types + the C18 event family x every prefix and every scalar token replaced by 9 tokens: {} texts ({} accepted); watchdog 10 s per input", cases.len(), total, accepted),
        cases: done as u64,
        obligations: vec![
            ("typed_deserialization_of_truncated_and_mutated_json_terminates", total, f_hang),
            ("typed_deserialization_of_truncated_and_mutated_json_never_panics", total, f_panic),
        ],
    }
}
