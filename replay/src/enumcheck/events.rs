//! C18 bounded stand-in: typed event (de)serialization of ruma-events (proc-macro generated serde code over
//! `serde_json::value::RawValue`; nothing of it is within reach of Verus or Kani, so nothing here is proved).
//!
//! For every event JSON of the enumerated family the real deserializers are run and judged against the JSON itself:
//!  * `from_str::<AnyTimelineEvent / AnySyncTimelineEvent / AnyStateEvent / AnyStrippedStateEvent / AnyToDeviceEvent /
//!    AnyEphemeralRoomEvent / AnyGlobalAccountDataEvent>` succeeds for every event shaped as the specification describes,
//!    reports the `type` of the JSON (unknown types included), the same sender / event_id / origin_server_ts / state_key,
//!    and is the redacted variant exactly when `unsigned.redacted_because` is present;
//!  * `Any*EventContent::from_parts(type, content)` then `to_string` then `from_parts` again is a fixpoint, yields JSON
//!    without duplicate keys, keeps every specified field with its value, and does not depend on the key order of
//!    the input text; unknown extra fields never make it fail;
//!  * `Raw<T>` returns the original text byte for byte, `get_field` agrees with a full parse and `deserialize` with
//!    `from_str`.
//! Family: 36 event type shapes (room state, message-like, ephemeral, account data, to-device) with every optional field of a
//! per-type list present/absent one at a time and all together, an unknown field added, keys in sorted and in reversed
//! order, original and redacted, full and sync format, plus unknown event types of every kind.
use std::collections::HashSet;

use ruma_common::serde::Raw;
use ruma_events::{
    AnyGlobalAccountDataEventContent, AnyToDeviceEventContent, AnyEphemeralRoomEvent, AnyGlobalAccountDataEvent, AnyMessageLikeEventContent, AnyStateEvent, AnyStateEventContent, AnyStrippedStateEvent, AnySyncTimelineEvent,
    AnyTimelineEvent, AnyToDeviceEvent, EventContentFromType,
};
use serde::de::{Deserializer, MapAccess, SeqAccess, Visitor};
use serde_json::{json, value::RawValue, Map, Value};

use super::Report;

fn fail(v: &mut Vec<Value>, x: Value) {
    if v.len() < 25 {
        v.push(x);
    }
}

// ---- duplicate key detection -------------------------------------------------------------------------------
struct NoDup;
impl<'de> serde::de::DeserializeSeed<'de> for NoDup {
    type Value = ();
    fn deserialize<D: Deserializer<'de>>(self, d: D) -> Result<(), D::Error> {
        d.deserialize_any(NoDupV)
    }
}
struct NoDupV;
impl<'de> Visitor<'de> for NoDupV {
    type Value = ();
    fn expecting(&self, f: &mut std::fmt::Formatter<'_>) -> std::fmt::Result {
        f.write_str("any JSON")
    }
    fn visit_bool<E>(self, _: bool) -> Result<(), E> { Ok(()) }
    fn visit_i64<E>(self, _: i64) -> Result<(), E> { Ok(()) }
    fn visit_u64<E>(self, _: u64) -> Result<(), E> { Ok(()) }
    fn visit_f64<E>(self, _: f64) -> Result<(), E> { Ok(()) }
    fn visit_str<E>(self, _: &str) -> Result<(), E> { Ok(()) }
    fn visit_unit<E>(self) -> Result<(), E> { Ok(()) }
    fn visit_seq<A: SeqAccess<'de>>(self, mut a: A) -> Result<(), A::Error> {
        while a.next_element_seed(NoDup)?.is_some() {}
        Ok(())
    }
    fn visit_map<A: MapAccess<'de>>(self, mut a: A) -> Result<(), A::Error> {
        let mut seen = HashSet::new();
        while let Some(k) = a.next_key::<String>()? {
            if !seen.insert(k.clone()) {
                return Err(serde::de::Error::custom(format!("duplicate key {k}")));
            }
            a.next_value_seed(NoDup)?;
        }
        Ok(())
    }
}
fn has_duplicate_keys(text: &str) -> bool {
    let mut d = serde_json::Deserializer::from_str(text);
    serde::de::DeserializeSeed::deserialize(NoDup, &mut d).is_err()
}

// ---- schemas ------------------------------------------------------------------------------------------------
#[derive(Clone, Copy, PartialEq)]
enum Kind {
    State,
    Message,
    Ephemeral,
    Account,
    ToDevice,
}

struct Schema {
    ty: &'static str,
    kind: Kind,
    required: Value,
    optional: Vec<(&'static str, Value)>,
}

fn schemas() -> Vec<Schema> {
    let s = |ty, kind, required: Value, optional: Vec<(&'static str, Value)>| Schema { ty, kind, required, optional };
    vec![
        s("m.room.create", Kind::State, json!({"creator": "@a:s"}), vec![("m.federate", json!(false)), ("room_version", json!("6")), ("predecessor", json!({"room_id": "!old:s", "event_id": "$e"})), ("type", json!("m.space"))]),
        s("m.room.member", Kind::State, json!({"membership": "join"}), vec![("displayname", json!("Al")), ("avatar_url", json!("mxc://s/abc")), ("is_direct", json!(true)), ("reason", json!("because")), ("join_authorised_via_users_server", json!("@x:s"))]),
        s("m.room.power_levels", Kind::State, json!({}), vec![("ban", json!(51)), ("users", json!({"@a:s": 100})), ("events", json!({"m.room.name": 50})), ("users_default", json!(1)), ("notifications", json!({"room": 20})), ("invite", json!(1))]),
        s("m.room.join_rules", Kind::State, json!({"join_rule": "public"}), vec![]),
        s("m.room.name", Kind::State, json!({"name": "n"}), vec![]),
        s("m.room.topic", Kind::State, json!({"topic": "t"}), vec![]),
        s("m.room.canonical_alias", Kind::State, json!({}), vec![("alias", json!("#a:s")), ("alt_aliases", json!(["#b:s"]))]),
        s("m.room.history_visibility", Kind::State, json!({"history_visibility": "shared"}), vec![]),
        s("m.room.guest_access", Kind::State, json!({"guest_access": "can_join"}), vec![]),
        s("m.room.server_acl", Kind::State, json!({"allow": ["*"], "deny": ["evil.org"]}), vec![("allow_ip_literals", json!(false))]),
        s("m.room.encryption", Kind::State, json!({"algorithm": "m.megolm.v1.aes-sha2"}), vec![("rotation_period_ms", json!(604800001u64)), ("rotation_period_msgs", json!(101))]),
        s("m.room.avatar", Kind::State, json!({}), vec![("url", json!("mxc://s/av")), ("info", json!({"h": 10, "w": 12, "mimetype": "image/png", "size": 99}))]),
        s("m.room.pinned_events", Kind::State, json!({"pinned": ["$a:s", "$b:s"]}), vec![]),
        s("m.space.child", Kind::State, json!({"via": ["s"]}), vec![("order", json!("a")), ("suggested", json!(true))]),
        s("m.space.parent", Kind::State, json!({"via": ["s"]}), vec![("canonical", json!(true))]),
        s("m.room.third_party_invite", Kind::State, json!({"display_name": "d", "key_validity_url": "https://s/v", "public_key": "YWJj"}), vec![("public_keys", json!([{"public_key": "ZGVm", "key_validity_url": "https://s/w"}]))]),
        s("m.room.tombstone", Kind::State, json!({"body": "moved", "replacement_room": "!new:s"}), vec![]),
        s("m.room.message", Kind::Message, json!({"msgtype": "m.text", "body": "hello"}), vec![("format", json!("org.matrix.custom.html")), ("formatted_body", json!("<b>hello</b>")), ("m.mentions", json!({"user_ids": ["@b:s"]}))]),
        s("m.sticker", Kind::Message, json!({"body": "s", "info": {"h": 1, "w": 2}, "url": "mxc://s/st"}), vec![]),
        s("m.room.encrypted", Kind::Message, json!({"algorithm": "m.megolm.v1.aes-sha2", "ciphertext": "abc", "sender_key": "k", "device_id": "D", "session_id": "S"}), vec![]),
        s("m.call.hangup", Kind::Message, json!({"call_id": "c", "version": 0}), vec![("reason", json!("user_hangup"))]),
        s("m.key.verification.start", Kind::Message, json!({"from_device": "D", "method": "m.sas.v1", "key_agreement_protocols": ["curve25519-hkdf-sha256"], "hashes": ["sha256"],
            "message_authentication_codes": ["hkdf-hmac-sha256.v2"], "short_authentication_string": ["decimal", "emoji"], "m.relates_to": {"rel_type": "m.reference", "event_id": "$req:s"}}), vec![]),
        s("m.key.verification.cancel", Kind::Message, json!({"code": "m.user", "reason": "r", "m.relates_to": {"rel_type": "m.reference", "event_id": "$req:s"}}), vec![]),
        s("m.key.verification.done", Kind::Message, json!({"m.relates_to": {"rel_type": "m.reference", "event_id": "$req:s"}}), vec![]),
        s("m.reaction", Kind::Message, json!({"m.relates_to": {"rel_type": "m.annotation", "event_id": "$e", "key": "x"}}), vec![]),
        s("m.room.redaction", Kind::Message, json!({}), vec![("reason", json!("spam")), ("redacts", json!("$x"))]),
        s("m.typing", Kind::Ephemeral, json!({"user_ids": ["@a:s"]}), vec![]),
        s("m.receipt", Kind::Ephemeral, json!({"$e": {"m.read": {"@a:s": {"ts": 1}}}}), vec![]),
        s("m.direct", Kind::Account, json!({"@a:s": ["!r:s"]}), vec![]),
        s("m.ignored_user_list", Kind::Account, json!({"ignored_users": {"@b:s": {}}}), vec![]),
        s("m.dummy", Kind::ToDevice, json!({}), vec![]),
        s("m.key.verification.start", Kind::ToDevice, json!({"from_device": "D", "method": "m.sas.v1", "key_agreement_protocols": ["curve25519-hkdf-sha256"], "hashes": ["sha256"],
            "message_authentication_codes": ["hkdf-hmac-sha256.v2"], "short_authentication_string": ["decimal", "emoji"], "transaction_id": "t1"}), vec![]),
        s("m.key.verification.start", Kind::ToDevice, json!({"from_device": "D", "method": "m.reciprocate.v1", "secret": "c2VjcmV0", "transaction_id": "t1"}), vec![]),
        s("m.key.verification.request", Kind::ToDevice, json!({"from_device": "D", "methods": ["m.sas.v1"], "timestamp": 5, "transaction_id": "t1"}), vec![]),
        s("m.room_key_request", Kind::ToDevice, json!({"action": "request_cancellation", "request_id": "r", "requesting_device_id": "D"}), vec![]),
        s("m.secret.request", Kind::ToDevice, json!({"action": "request", "name": "m.megolm_backup.v1", "request_id": "r", "requesting_device_id": "D"}), vec![]),
        // forward-compatible values inside known event types: unknown msgtype / method / algorithm / join rule, with the
        // relation and mention fields the outer content type writes itself
        s("m.room.message", Kind::Message, json!({"msgtype": "org.example.custom_msg", "body": "b"}), vec![("m.relates_to", json!({"m.in_reply_to": {"event_id": "$e"}})), ("m.mentions", json!({"room": true})), ("payload", json!({"k": [1, 2]}))]),
        s("m.room.message", Kind::Message, json!({"msgtype": "org.example.custom_msg", "body": "* b", "m.relates_to": {"rel_type": "m.replace", "event_id": "$e"}, "m.new_content": {"msgtype": "org.example.custom_msg", "body": "b"}}), vec![("m.mentions", json!({"user_ids": ["@b:s"]}))]),
        s("m.room.message", Kind::Message, json!({"msgtype": "m.text", "body": "* b", "m.relates_to": {"rel_type": "m.replace", "event_id": "$e"}, "m.new_content": {"msgtype": "m.text", "body": "b"}}), vec![("m.mentions", json!({"user_ids": ["@b:s"]}))]),
        s("m.room.message", Kind::Message, json!({"msgtype": "m.notice", "body": "b", "m.relates_to": {"rel_type": "m.thread", "event_id": "$root", "is_falling_back": true, "m.in_reply_to": {"event_id": "$e"}}}), vec![]),
        s("m.room.join_rules", Kind::State, json!({"join_rule": "restricted", "allow": [{"type": "m.room_membership", "room_id": "!other:s"}]}), vec![]),
        s("m.room.join_rules", Kind::State, json!({"join_rule": "org.example.rule"}), vec![]),
        s("m.key.verification.start", Kind::ToDevice, json!({"from_device": "D", "method": "org.example.method", "key_agreement_protocols": ["curve25519-hkdf-sha256"], "hashes": ["sha256"],
            "message_authentication_codes": ["hkdf-hmac-sha256.v2"], "short_authentication_string": ["decimal"], "transaction_id": "t1"}), vec![]),
        s("m.key.verification.start", Kind::ToDevice, json!({"from_device": "D", "method": "org.example.method", "secret": "c2VjcmV0", "transaction_id": "t1"}), vec![]),
        s("m.key.verification.start", Kind::ToDevice, json!({"from_device": "D", "method": "org.example.method", "transaction_id": "t1"}), vec![("payload", json!(1))]),
        s("m.key.verification.accept", Kind::ToDevice, json!({"transaction_id": "t1", "method": "m.sas.v1", "key_agreement_protocol": "curve25519-hkdf-sha256", "hash": "sha256",
            "message_authentication_code": "hkdf-hmac-sha256.v2", "short_authentication_string": ["decimal"], "commitment": "Y29tbWl0"}), vec![]),
        s("m.key.verification.accept", Kind::ToDevice, json!({"transaction_id": "t1", "method": "org.example.method", "key_agreement_protocol": "curve25519-hkdf-sha256", "hash": "sha256",
            "message_authentication_code": "hkdf-hmac-sha256.v2", "short_authentication_string": ["decimal"], "commitment": "Y29tbWl0"}), vec![]),
        s("m.secret_storage.key.abc", Kind::Account, json!({"algorithm": "m.secret_storage.v1.aes-hmac-sha2"}), vec![("name", json!("n")), ("iv", json!("YWJjZGVmZ2hpamtsbW5vcA")), ("mac", json!("aWFtYW1hY2lhbWFtYWNpYW1hbWFjaWFtYW1hY2lhbWE"))]),
        s("m.secret_storage.key.abc", Kind::Account, json!({"algorithm": "org.example.alg"}), vec![("name", json!("n")), ("payload", json!(1))]),
        s("m.secret_storage.default_key", Kind::Account, json!({"key": "abc"}), vec![]),
        s("m.push_rules", Kind::Account, json!({"global": {"override": [{"rule_id": ".m.rule.master", "default": true, "enabled": false, "conditions": [], "actions": []}]}}), vec![]),
        s("m.identity_server", Kind::Account, json!({"base_url": "https://id.s"}), vec![]),
        s("org.example.unknown", Kind::State, json!({"anything": [1, {"x": null}]}), vec![("more", json!("x"))]),
        // unknown types that are near misses of known ones (one of them a prefix of a type with a variable suffix)
        s("m.room.name2", Kind::State, json!({"name": "n"}), vec![]),
        s("m.room.messages", Kind::Message, json!({"msgtype": "m.text", "body": "b"}), vec![]),
        s("m.typing2", Kind::Ephemeral, json!({"user_ids": ["@a:s"]}), vec![]),
        s("m.direct2", Kind::Account, json!({"@a:s": ["!r:s"]}), vec![]),
        s("m.secret_storage.key", Kind::Account, json!({"algorithm": "m.secret_storage.v1.aes-hmac-sha2"}), vec![]),
        s("m.secret_storage.keys", Kind::Account, json!({"anything": 1}), vec![]),
        s("m.secret_storage.key_rotation", Kind::Account, json!({"anything": 1}), vec![]),
        s("m.dummy2", Kind::ToDevice, json!({}), vec![]),
        s("org.example.unknown.msg", Kind::Message, json!({"anything": 1}), vec![]),
        s("org.example.unknown.eph", Kind::Ephemeral, json!({"anything": 1}), vec![]),
        s("org.example.unknown.acc", Kind::Account, json!({"anything": 1}), vec![]),
        s("org.example.unknown.td", Kind::ToDevice, json!({"anything": 1}), vec![]),
    ]
}

fn state_key_of(ty: &str) -> &'static str {
    match ty {
        "m.room.member" => "@a:s",
        "m.space.child" | "m.space.parent" => "!child:s",
        "m.room.third_party_invite" => "tok",
        _ => "",
    }
}

/// when set, `render` writes every string (keys and values) with JSON escapes: the first character as \uXXXX and '/' as
/// "\/" - the same JSON value as another text (events relayed by other implementations arrive in such spellings)
static ESCAPED: std::sync::atomic::AtomicBool = std::sync::atomic::AtomicBool::new(false);

fn json_string(s: &str) -> String {
    let plain = serde_json::to_string(s).unwrap();
    if !ESCAPED.load(std::sync::atomic::Ordering::Relaxed) {
        return plain;
    }
    let mut out = String::from("\"");
    for (i, c) in s.chars().enumerate() {
        if (i == 0 || c == '.') && (c as u32) < 0x10000 {
            out.push_str(&format!("\\u{:04x}", c as u32));
        } else if c == '/' {
            out.push_str("\\/");
        } else {
            let one = serde_json::to_string(&c.to_string()).unwrap();
            out.push_str(&one[1..one.len() - 1]);
        }
    }
    out.push('"');
    out
}

/// JSON text of a value with object keys in sorted or reversed order at every depth
fn render(v: &Value, reversed: bool, out: &mut String) {
    match v {
        Value::Object(m) => {
            let mut keys: Vec<&String> = m.keys().collect();
            keys.sort();
            if reversed {
                keys.reverse();
            }
            out.push('{');
            for (i, k) in keys.iter().enumerate() {
                if i > 0 {
                    out.push(',');
                }
                out.push_str(&json_string(k));
                out.push(':');
                render(&m[*k], reversed, out);
            }
            out.push('}');
        }
        Value::Array(a) => {
            out.push('[');
            for (i, x) in a.iter().enumerate() {
                if i > 0 {
                    out.push(',');
                }
                render(x, reversed, out);
            }
            out.push(']');
        }
        Value::String(x) => out.push_str(&json_string(x)),
        x => out.push_str(&serde_json::to_string(x).unwrap()),
    }
}

fn contents(s: &Schema, thorough: bool) -> Vec<(String, Value)> {
    let mut out = vec![("required only".to_owned(), s.required.clone())];
    let base = s.required.as_object().cloned().unwrap_or_default();
    for (k, v) in &s.optional {
        let mut m = base.clone();
        m.insert((*k).to_owned(), v.clone());
        out.push((format!("+{k}"), Value::Object(m)));
    }
    if !s.optional.is_empty() {
        let mut m = base.clone();
        for (k, v) in &s.optional {
            m.insert((*k).to_owned(), v.clone());
        }
        out.push(("all optional fields".to_owned(), Value::Object(m)));
    }
    // thorough tier: every subset of the optional fields (complete shapes only: the pairs that must come together are
    // kept together by judging such subsets as incomplete, like the single-field shapes)
    if thorough && s.optional.len() >= 2 && s.optional.len() <= 8 {
        for mask in 1u32..(1 << s.optional.len()) - 1 {
            if mask.count_ones() < 2 {
                continue;
            }
            let mut m = base.clone();
            let mut names = vec![];
            for (i, (k, v)) in s.optional.iter().enumerate() {
                if mask & (1 << i) != 0 {
                    m.insert((*k).to_owned(), v.clone());
                    names.push(*k);
                }
            }
            out.push((format!("+{}", names.join("+")), Value::Object(m)));
        }
    }
    // contents that are maps keyed by identifiers have no "unknown field"
    if !matches!(s.ty, "m.receipt" | "m.direct") {
        let mut m = base;
        m.insert("org.example.extra".to_owned(), json!({"z": [1, 2], "a": null}));
        out.push(("+unknown field".to_owned(), Value::Object(m)));
    }
    out
}

struct Acc {
    n: u64,
    nontrivial: u64,
    f_parse: Vec<Value>,
    f_fix: Vec<Value>,
    f_raw: Vec<Value>,
    f_panic: Vec<Value>,
    samples: Vec<Value>,
}

/// the event JSON of a schema with the given content (original or redacted form)
fn build_event(s: &Schema, content: &Value, redacted: bool) -> Value {
    let mut base = Map::new();
    base.insert("type".into(), json!(s.ty));
    // a redacted event keeps exactly the content keys the redaction algorithm protects
    let kept: &[&str] = match s.ty {
        "m.room.member" => &["membership"],
        "m.room.create" => &["creator"],
        "m.room.join_rules" => &["join_rule"],
        "m.room.power_levels" => &["ban", "events", "events_default", "kick", "redact", "state_default", "users", "users_default"],
        "m.room.history_visibility" => &["history_visibility"],
        _ => &[],
    };
    let redacted_content = Value::Object(content.as_object().map(|m| m.iter().filter(|(k, _)| kept.contains(&k.as_str())).map(|(k, v)| (k.clone(), v.clone())).collect()).unwrap_or_default());
    base.insert("content".into(), if redacted { redacted_content } else { content.clone() });
    let timeline = matches!(s.kind, Kind::State | Kind::Message);
    if timeline {
        base.insert("event_id".into(), json!("$ev:s"));
        base.insert("sender".into(), json!("@a:s"));
        base.insert("origin_server_ts".into(), json!(1234));
        base.insert("room_id".into(), json!("!r:s"));
        if s.kind == Kind::State {
            base.insert("state_key".into(), json!(state_key_of(s.ty)));
        }
        if s.ty == "m.room.redaction" && !redacted {
            base.insert("redacts".into(), json!("$x"));
        }
        let mut unsigned = Map::new();
        unsigned.insert("age".into(), json!(5));
        if redacted {
            unsigned.insert("redacted_because".into(), json!({"type": "m.room.redaction", "content": {}, "event_id": "$red:s", "sender": "@m:s", "origin_server_ts": 2000, "redacts": "$ev:s", "room_id": "!r:s"}));
        }
        base.insert("unsigned".into(), Value::Object(unsigned));
    } else if s.kind == Kind::ToDevice {
        base.insert("sender".into(), json!("@a:s"));
    } else if s.kind == Kind::Ephemeral {
        base.insert("room_id".into(), json!("!r:s"));
    }
    base.insert("org.example.top_level_extra".into(), json!(true));
    Value::Object(base)
}

fn check_event(acc: &mut Acc, s: &Schema, label: &str, content: &Value, redacted: bool, reversed: bool) {
    let ev = build_event(s, content, redacted);
    let timeline = matches!(s.kind, Kind::State | Kind::Message);
    let mut text = String::new();
    render(&ev, reversed, &mut text);
    acc.n += 1;
    acc.nontrivial += 1;
    let escaped = ESCAPED.load(std::sync::atomic::Ordering::Relaxed);
    let describe = |why: &str| json!({"type": s.ty, "shape": label, "redacted": redacted, "keys_reversed": reversed, "strings_escaped": escaped, "event": text, "why": why});
    let r = std::panic::catch_unwind(|| -> Vec<(u8, String)> {
        let mut bad: Vec<(u8, String)> = vec![];
        let is_unknown = s.ty.starts_with("org.example") || matches!(s.ty, "m.room.name2" | "m.room.messages" | "m.typing2" | "m.direct2" | "m.secret_storage.key" | "m.secret_storage.keys" | "m.secret_storage.key_rotation" | "m.dummy2");
        match s.kind {
            Kind::State | Kind::Message => {
                match serde_json::from_str::<AnyTimelineEvent>(&text) {
                    Err(e) => bad.push((0, format!("AnyTimelineEvent does not deserialize: {e}"))),
                    Ok(e) => {
                        if e.event_type().to_string() != s.ty || e.sender() != "@a:s" || e.event_id() != "$ev:s" || u64::from(e.origin_server_ts().0) != 1234 || e.room_id() != "!r:s" {
                            bad.push((0, format!("AnyTimelineEvent exposes type {} sender {} id {} ts {:?}", e.event_type(), e.sender(), e.event_id(), e.origin_server_ts())));
                        }
                        let (is_red, sk) = match &e {
                            AnyTimelineEvent::MessageLike(m) => (m.is_redacted(), None),
                            AnyTimelineEvent::State(st) => (st.is_redacted(), Some(st.state_key().to_owned())),
                        };
                        if is_red != redacted {
                            bad.push((0, format!("redacted variant: {is_red}, unsigned.redacted_because present: {redacted}")));
                        }
                        if (s.kind == Kind::State) != matches!(e, AnyTimelineEvent::State(_)) {
                            bad.push((0, "state / message-like dispatch does not follow the presence of state_key".into()));
                        }
                        if let Some(k) = sk {
                            if k != state_key_of(s.ty) {
                                bad.push((0, format!("state_key is {k:?}")));
                            }
                        }
                    }
                }
                // sync format: no room_id
                let mut sync = ev.clone();
                sync.as_object_mut().unwrap().remove("room_id");
                let mut st = String::new();
                render(&sync, reversed, &mut st);
                match serde_json::from_str::<AnySyncTimelineEvent>(&st) {
                    Err(e) => bad.push((0, format!("AnySyncTimelineEvent does not deserialize: {e}"))),
                    Ok(e) => {
                        if e.event_type().to_string() != s.ty || e.sender() != "@a:s" || e.event_id() != "$ev:s" {
                            bad.push((0, "AnySyncTimelineEvent exposes different type / sender / id".into()));
                        }
                    }
                }
                if s.kind == Kind::State {
                    match serde_json::from_str::<AnyStateEvent>(&text) {
                        Err(e) => bad.push((0, format!("AnyStateEvent does not deserialize: {e}"))),
                        Ok(e) => {
                            if e.event_type().to_string() != s.ty {
                                bad.push((0, "AnyStateEvent exposes a different type".into()));
                            }
                        }
                    }
                    if !redacted {
                        let stripped = json!({"type": s.ty, "content": content, "sender": "@a:s", "state_key": state_key_of(s.ty)});
                        let mut t = String::new();
                        render(&stripped, reversed, &mut t);
                        match serde_json::from_str::<AnyStrippedStateEvent>(&t) {
                            Err(e) => bad.push((0, format!("AnyStrippedStateEvent does not deserialize: {e}"))),
                            Ok(e) => {
                                if e.event_type().to_string() != s.ty || e.sender() != "@a:s" {
                                    bad.push((0, "AnyStrippedStateEvent exposes different type / sender".into()));
                                }
                            }
                        }
                    }
                }
            }
            Kind::Ephemeral => {
                match serde_json::from_str::<AnyEphemeralRoomEvent>(&text) {
                    Err(e) => bad.push((0, format!("AnyEphemeralRoomEvent does not deserialize: {e}"))),
                    Ok(e) => {
                        if e.event_type().to_string() != s.ty || e.room_id() != "!r:s" {
                            bad.push((0, "AnyEphemeralRoomEvent exposes a different type / room".into()));
                        }
                    }
                }
                let mut sync = ev.clone();
                sync.as_object_mut().unwrap().remove("room_id");
                let mut st = String::new();
                render(&sync, reversed, &mut st);
                match serde_json::from_str::<ruma_events::AnySyncEphemeralRoomEvent>(&st) {
                    Err(e) => bad.push((0, format!("AnySyncEphemeralRoomEvent does not deserialize: {e}"))),
                    Ok(e) => {
                        if e.event_type().to_string() != s.ty {
                            bad.push((0, "AnySyncEphemeralRoomEvent exposes a different type".into()));
                        }
                    }
                }
            }
            Kind::Account => match serde_json::from_str::<AnyGlobalAccountDataEvent>(&text) {
                Err(e) => bad.push((0, format!("AnyGlobalAccountDataEvent does not deserialize: {e}"))),
                Ok(e) => {
                    if e.event_type().to_string() != s.ty {
                        bad.push((0, "AnyGlobalAccountDataEvent exposes a different type".into()));
                    }
                }
            },
            Kind::ToDevice => match serde_json::from_str::<AnyToDeviceEvent>(&text) {
                Err(e) => bad.push((0, format!("AnyToDeviceEvent does not deserialize: {e}"))),
                Ok(e) => {
                    if e.event_type().to_string() != s.ty || e.sender() != "@a:s" {
                        bad.push((0, "AnyToDeviceEvent exposes different type / sender".into()));
                    }
                }
            },
        }
        // ---- content fixpoint (original contents of room events)
        if !redacted && !is_unknown && matches!(s.kind, Kind::State | Kind::Message | Kind::ToDevice | Kind::Account) {
            let mut ctext = String::new();
            render(content, reversed, &mut ctext);
            let mut ctext_other = String::new();
            render(content, !reversed, &mut ctext_other);
            let raw = RawValue::from_string(ctext.clone()).unwrap();
            let raw_other = RawValue::from_string(ctext_other).unwrap();
            let ser = |raw: &RawValue| -> Result<String, String> {
                if s.kind == Kind::State {
                    AnyStateEventContent::from_parts(s.ty, raw).map_err(|e| e.to_string()).and_then(|c| serde_json::to_string(&c).map_err(|e| e.to_string()))
                } else if s.kind == Kind::Account {
                    AnyGlobalAccountDataEventContent::from_parts(s.ty, raw).map_err(|e| e.to_string()).and_then(|c| serde_json::to_string(&c).map_err(|e| e.to_string()))
                } else if s.kind == Kind::ToDevice {
                    AnyToDeviceEventContent::from_parts(s.ty, raw).map_err(|e| e.to_string()).and_then(|c| serde_json::to_string(&c).map_err(|e| e.to_string()))
                } else {
                    AnyMessageLikeEventContent::from_parts(s.ty, raw).map_err(|e| e.to_string()).and_then(|c| serde_json::to_string(&c).map_err(|e| e.to_string()))
                }
            };
            match ser(&raw) {
                Err(e) => bad.push((1, format!("content does not deserialize / serialize: {e}"))),
                Ok(out1) => {
                    if !is_unknown {
                        if has_duplicate_keys(&out1) {
                            bad.push((1, format!("serialized content has duplicate keys: {out1}")));
                        }
                        match serde_json::from_str::<Value>(&out1) {
                            Err(e) => bad.push((1, format!("serialized content is not valid JSON: {e}"))),
                            Ok(v1) => {
                                // every specified field that was present keeps its value
                                for (k, v) in content.as_object().unwrap() {
                                    if k.starts_with("org.example") {
                                        continue;
                                    }
                                    // a field may only be left out where the shape is incomplete (one member of a pair such as
                                    // format / formatted_body); complete shapes must keep every field, all shapes keep the value
                                    let complete = label == "required only" || label == "all optional fields" || label == "+unknown field";
                                    if (complete || v1.get(k).is_some()) && v1.get(k) != Some(v) {
                                        bad.push((1, format!("field {k} was {v} and is {:?} after a round trip", v1.get(k))));
                                    }
                                }
                            }
                        }
                        let raw2 = RawValue::from_string(out1.clone()).unwrap();
                        match ser(&raw2) {
                            Ok(out2) if out2 == out1 => {}
                            other => bad.push((1, format!("not a fixpoint: first {out1}, second {other:?}"))),
                        }
                        match ser(&raw_other) {
                            Ok(o) if o == out1 => {}
                            other => bad.push((1, format!("depends on the key order of the input: {out1} vs {other:?}"))),
                        }
                    }
                }
            }
        }
        // ---- Raw
        if timeline {
            match Raw::<AnyTimelineEvent>::from_json_string(text.clone()) {
                Err(e) => bad.push((2, format!("Raw::from_json_string fails: {e}"))),
                Ok(raw) => {
                    if raw.json().get() != text {
                        bad.push((2, "Raw does not return the original text byte for byte".into()));
                    }
                    match raw.get_field::<String>("type") {
                        Ok(Some(t)) if t == s.ty => {}
                        other => bad.push((2, format!("get_field(\"type\") gives {other:?}"))),
                    }
                    match raw.get_field::<Value>("content") {
                        Ok(Some(c)) if c == ev["content"] => {}
                        other => bad.push((2, format!("get_field(\"content\") gives {other:?}"))),
                    }
                    // a field that is `null` reads like an absent one, as a full parse into an Option does
                    {
                        let mut with_null = ev.clone();
                        with_null.as_object_mut().unwrap().insert("org.example.null".to_owned(), Value::Null);
                        let mut t = String::new();
                        render(&with_null, reversed, &mut t);
                        #[derive(serde::Deserialize)]
                        struct Full {
                            #[serde(rename = "org.example.null")]
                            f: Option<String>,
                        }
                        let full = serde_json::from_str::<Full>(&t).map(|f| f.f).map_err(|e| e.to_string());
                        let field = Raw::<AnyTimelineEvent>::from_json_string(t).map_err(|e| e.to_string()).and_then(|r| r.get_field::<String>("org.example.null").map_err(|e| e.to_string()));
                        if field != full || field != Ok(None) {
                            bad.push((2, format!("get_field::<String> of a null field gives {field:?}, a full parse into Option<String> gives {full:?}")));
                        }
                    }
                    if !matches!(raw.get_field::<Value>("org.example.absent"), Ok(None)) {
                        bad.push((2, "get_field of an absent field is not Ok(None)".into()));
                    }
                    if raw.deserialize().is_ok() != serde_json::from_str::<AnyTimelineEvent>(&text).is_ok() {
                        bad.push((2, "Raw::deserialize disagrees with from_str".into()));
                    }
                }
            }
        }
        bad
    });
    match r {
        Err(_) => fail(&mut acc.f_panic, describe("panic")),
        Ok(bad) => {
            if bad.is_empty() && acc.samples.len() < 3 && label.starts_with('+') {
                acc.samples.push(json!({"type": s.ty, "shape": label, "event": text}));
            }
            for (k, why) in bad {
                let d = describe(&why);
                match k {
                    0 => fail(&mut acc.f_parse, d),
                    1 => fail(&mut acc.f_fix, d),
                    _ => fail(&mut acc.f_raw, d),
                }
            }
        }
    }
}

/// (kind, JSON text) of every generated event in sorted key order: 0 timeline, 1 ephemeral, 2 account data, 3 to-device
pub(super) fn event_texts() -> Vec<(u8, String)> {
    let mut out = vec![];
    for s in schemas() {
        for (_label, content) in contents(&s, false) {
            for redacted in [false, true] {
                if redacted && !matches!(s.kind, Kind::State | Kind::Message) {
                    continue;
                }
                let ev = build_event(&s, &content, redacted);
                let mut text = String::new();
                render(&ev, false, &mut text);
                let k = match s.kind { Kind::State | Kind::Message => 0, Kind::Ephemeral => 1, Kind::Account => 2, Kind::ToDevice => 3 };
                out.push((k, text));
            }
        }
    }
    out
}

pub fn run(tier: &str) -> Report {
    let thorough = tier == "thorough";
    let mut acc = Acc { n: 0, nontrivial: 0, f_parse: vec![], f_fix: vec![], f_raw: vec![], f_panic: vec![], samples: vec![] };
    for escaped in [false, true] {
        ESCAPED.store(escaped, std::sync::atomic::Ordering::Relaxed);
        for s in schemas() {
            for (label, content) in contents(&s, thorough) {
                for reversed in [false, true] {
                    check_event(&mut acc, &s, &label, &content, false, reversed);
                    if matches!(s.kind, Kind::State | Kind::Message) {
                        check_event(&mut acc, &s, &label, &content, true, reversed);
                    }
                }
            }
        }
    }
    ESCAPED.store(false, std::sync::atomic::Ordering::Relaxed);
    *super::EXTRA.lock().unwrap() = Some((
        acc.nontrivial,
        "cases are (event type, content shape, redacted?, key order, string spelling) tuples, each generated once (distinct); every case is a complete event JSON, so all are non-trivial".to_owned(),
        acc.samples.clone(),
    ));
    Report {
        bound: format!("{} events: 41 event type shapes (36 specified + 5 unknown, of every kind) x content shapes (required only, each optional field, all optional fields, an unknown field; thorough tier: every subset of the optional fields) x original/redacted x sorted/reversed key order x plain / JSON-escaped spelling of every string, each also in sync / state / stripped format where applicable", acc.n),
        cases: acc.n,
        obligations: vec![
            ("typed_deserialization_dispatches_by_type_and_exposes_the_json_fields", acc.n, acc.f_parse),
            ("content_round_trip_is_a_fixpoint_keeping_every_specified_field", acc.n, acc.f_fix),
            ("raw_json_wrapper_is_byte_exact_and_agrees_with_a_full_parse", acc.n, acc.f_raw),
            ("typed_event_deserialization_never_panics", acc.n, acc.f_panic),
        ],
    }
}
