//! Bounded exhaustive checks of real ruma functions that neither Verus nor Kani can ingest.
//! Each check enumerates a stated finite space completely and compares the real code with an
//! oracle written from the property statement / Matrix spec. Results are *bounded stand-ins*:
//! never reported as proved.
use serde_json::{json, Value};

pub mod auth;
pub mod cjson;
pub mod events;
pub mod hashes;
pub mod html;
pub mod ids;
pub mod pushcond;
pub mod pushops;
pub mod redact;
pub mod sign;
pub mod stateres;
pub mod uri;
mod enumord;
mod cdisp;
mod handenum;
mod trunc;
mod mpart;
pub mod deep;
pub mod rescycle;
pub mod wire;
pub mod xmatrix;

pub struct Report {
    pub bound: String,
    pub cases: u64,
    /// obligation label -> (checked count, first failures)
    pub obligations: Vec<(&'static str, u64, Vec<Value>)>,
}

impl Report {
    pub fn to_json(&self) -> Value {
        json!({
            "bound": self.bound,
            "cases": self.cases,
            "obligations": self.obligations.iter().map(|(l, n, f)| json!({"label": l, "checked": n, "failures": f})).collect::<Vec<_>>(),
        })
    }
}

/// measured exploration statistics a module may attach to its report: (distinct non-trivial cases, rule, samples)
pub static EXTRA: std::sync::Mutex<Option<(u64, String, Vec<Value>)>> = std::sync::Mutex::new(None);

pub fn run(name: &str, tier: &str) -> Option<Value> {
    let mut v = run_inner(name, tier)?;
    if let Some((n, rule, samples)) = EXTRA.lock().unwrap().take() {
        v["distinct_nontrivial"] = json!(n);
        v["rule"] = json!(rule);
        v["samples"] = json!(samples);
    }
    Some(v)
}

fn run_inner(name: &str, tier: &str) -> Option<Value> {
    Some(match name {
        "redact" => redact::run(tier).to_json(),
        "pushcond" => pushcond::run(tier).to_json(),
        "pushops" => pushops::run(tier).to_json(),
        "cjson" => cjson::run(tier).to_json(),
        "events" => events::run(tier).to_json(),
        "auth" => auth::run(tier).to_json(),
        "hashes" => hashes::run(tier).to_json(),
        "html" => html::run(tier).to_json(),
        "ids" => ids::run(tier).to_json(),
        "xmatrix" => xmatrix::run(tier).to_json(),
        "wire" => wire::run(tier).to_json(),
        "sign" => sign::run(tier).to_json(),
        "stateres" => stateres::run(tier).to_json(),
        "uri" => uri::run(tier).to_json(),
        "enumord" => enumord::run(tier).to_json(),
        "cdisp" => cdisp::run(tier).to_json(),
        "handenum" => handenum::run(tier).to_json(),
        "trunc" => trunc::run(tier).to_json(),
        "mpart" => mpart::run(tier).to_json(),
        "deep" => deep::run(tier).to_json(),
        "rescycle" => rescycle::run(tier).to_json(),
        _ => return None,
    })
}
