//! C12 / C17 bounded stand-in for the parts of push-condition evaluation that neither verifier can ingest:
//! glob matching (`StrExt::matches_pattern` / `matches_word`: regex + wildmatch dependencies, UTF-8 boundary
//! arithmetic) and the flattening of the event JSON (`FlattenedJson::from_raw`: serde_json values, iterator
//! adapters). Both are exercised through the public API (`PushCondition::{EventMatch, EventPropertyIs,
//! EventPropertyContains}::applies`, `FlattenedJson::get`) and compared with oracles written from the property
//! statement:
//!
//!  * glob: '*' matches any run of characters (incl. none), '?' exactly one character, case-insensitively;
//!    for `content.body` the pattern must match a substring delimited by word boundaries (start / end of the
//!    value, or a position where not both neighbours are in [A-Za-z0-9_]); for any other key the whole value.
//!  * flattening: object keys joined with '.', with '.' and '\' inside a key escaped by a backslash; scalars and
//!    arrays at the leaves; an array keeps every scalar element (null, bool, integer, string) in order and skips
//!    the others; an empty object is a leaf.
//!
//! Space (quick): every pattern of length 1..3 over {a, B, *, ?, ' ', é} (258) x every value of length 0..3 over
//! {a, A, b, ' ', é, _} (259) for both key kinds, plus a fixed list of longer cases (newlines, repeated partial
//! matches, multi-byte neighbours); thorough: values up to length 4 over the alphabet extended with '.'.
//! Flattening: every object with up to 2 entries, keys from {a, "a.b", "a\\b", "m.x", ""} and values from a
//! 14-element set (scalars, nested objects, arrays mixing scalars and non-scalars).
use ruma_common::{
    push::{FlattenedJson, PushCondition, PushConditionRoomCtx},
    serde::Raw,
    OwnedRoomId, OwnedUserId,
};
use serde_json::{json, Value};

use super::Report;

fn fail(v: &mut Vec<Value>, x: Value) {
    if v.len() < 30 {
        v.push(x);
    }
}

fn ctx() -> PushConditionRoomCtx {
    PushConditionRoomCtx {
        room_id: OwnedRoomId::try_from("!r:s").unwrap(),
        member_count: 2u32.into(),
        user_id: OwnedUserId::try_from("@me:s").unwrap(),
        user_display_name: "me".to_owned(),
        power_levels: None,
    }
}

fn is_word(c: char) -> bool {
    c.is_ascii_alphanumeric() || c == '_'
}

/// '*' any run, '?' exactly one character, everything else literally (whole-string match)
fn glob(p: &[char], s: &[char]) -> bool {
    // dp over pattern x string
    let mut prev = vec![false; s.len() + 1];
    prev[0] = true;
    for &pc in p {
        let mut cur = vec![false; s.len() + 1];
        if pc == '*' {
            let mut any = false;
            for j in 0..=s.len() {
                any = any || prev[j];
                cur[j] = any;
            }
        } else {
            for j in 1..=s.len() {
                cur[j] = prev[j - 1] && (pc == '?' || pc == s[j - 1]);
            }
        }
        prev = cur;
    }
    prev[s.len()]
}

fn lower(s: &str) -> Vec<char> {
    s.to_lowercase().chars().collect()
}

fn oracle_whole(pattern: &str, value: &str) -> bool {
    glob(&lower(pattern), &lower(value))
}

fn oracle_word(pattern: &str, value: &str) -> bool {
    let p = lower(pattern);
    let v = lower(value);
    if p == v {
        return true;
    }
    if p.is_empty() {
        return false;
    }
    let n = v.len();
    let w_at = |i: usize| i < n && is_word(v[i]);
    for i in 0..=n {
        let before = i == 0 || !is_word(v[i - 1]) || !w_at(i);
        if !before {
            continue;
        }
        for j in i..=n {
            let after = j == n || !is_word(v[j]) || j == 0 || !is_word(v[j - 1]);
            if after && glob(&p, &v[i..j]) {
                return true;
            }
        }
    }
    false
}

fn strings(alphabet: &[char], max_len: usize, min_len: usize) -> Vec<String> {
    let mut out = vec![];
    let mut layer = vec![String::new()];
    if min_len == 0 {
        out.push(String::new());
    }
    for l in 1..=max_len {
        let mut next = vec![];
        for t in &layer {
            for c in alphabet {
                let mut s = t.clone();
                s.push(*c);
                next.push(s);
            }
        }
        if l >= min_len {
            out.extend(next.iter().cloned());
        }
        layer = next;
    }
    out
}

fn run_glob(patterns: &[String], values: &[String]) -> (u64, Vec<Value>, Vec<Value>, Vec<Value>) {
    let c = ctx();
    let (mut n, mut f_word, mut f_whole, mut f_panic) = (0u64, vec![], vec![], vec![]);
    for v in values {
        let raw: Raw<Value> = Raw::new(&json!({"sender": "@o:s", "content": {"body": v, "other": v}})).unwrap();
        let flat = FlattenedJson::from_raw(&raw);
        for p in patterns {
            for (key, word) in [("content.body", true), ("content.other", false)] {
                n += 1;
                let cond = PushCondition::EventMatch { key: key.to_owned(), pattern: p.clone() };
                let got = std::panic::catch_unwind(std::panic::AssertUnwindSafe(|| cond.applies(&flat, &c)));
                let want = if word { oracle_word(p, v) } else { oracle_whole(p, v) };
                match got {
                    Err(_) => fail(&mut f_panic, json!({"key": key, "pattern": p, "value": v, "observed": "panic"})),
                    Ok(g) if g != want => fail(
                        if word { &mut f_word } else { &mut f_whole },
                        json!({"key": key, "pattern": p, "value": v, "observed": g, "expected": want}),
                    ),
                    _ => {}
                }
            }
        }
    }
    (n, f_word, f_whole, f_panic)
}

// ---- flattening ---------------------------------------------------------------------------------------

fn escape_key(k: &str) -> String {
    let mut s = String::new();
    for c in k.chars() {
        if c == '.' || c == '\\' {
            s.push('\\');
        }
        s.push(c);
    }
    s
}

fn scalar_ok(v: &Value) -> bool {
    match v {
        Value::Null | Value::Bool(_) | Value::String(_) => true,
        Value::Number(n) => n.as_i64().is_some_and(|i| i.abs() <= 9007199254740991),
        _ => false,
    }
}

/// the specification's flattening: path -> leaf (scalar / filtered array / {} for an empty object)
/// the path of a property is the dot-separated list of the escaped keys leading to it; the root has no path (a key may be
/// the empty string, so "no path yet" is not the same as the empty path)
fn oracle_flatten(v: &Value, path: Option<String>, out: &mut Vec<(String, Value)>) {
    match v {
        Value::Object(m) if m.is_empty() => out.push((path.unwrap_or_default(), json!({}))),
        Value::Object(m) => {
            for (k, x) in m {
                let k = escape_key(k);
                let p = match &path {
                    Some(path) => format!("{path}.{k}"),
                    None => k,
                };
                oracle_flatten(x, Some(p), out);
            }
        }
        Value::Array(a) => out.push((path.unwrap_or_default(), Value::Array(a.iter().filter(|x| scalar_ok(x)).cloned().collect()))),
        x if scalar_ok(x) => out.push((path.unwrap_or_default(), x.clone())),
        _ => {}
    }
}

fn run_flatten() -> (u64, Vec<Value>, Vec<Value>, Vec<Value>) {
    use ruma_common::push::ScalarJsonValue;
    let c = ctx();
    let keys = ["a", "a.b", "a\\b", "m.x", ""];
    let vals = vec![
        json!(null),
        json!(true),
        json!(7),
        json!(1.5),
        json!("s"),
        json!({}),
        json!({"k": 1}),
        json!({"k.l": {"z": "s"}}),
        json!([]),
        json!([1, "s", null, false]),
        json!([1, {"o": 1}, 2]),
        json!([[1], "s", [2], 3]),
        json!([1.5, 4, 9007199254740993u64, "t"]),
        json!([{"o": 1}]),
    ];
    let probes: Vec<ScalarJsonValue> = vec![
        ScalarJsonValue::Null,
        true.into(),
        false.into(),
        js_int::int!(1).into(),
        js_int::int!(2).into(),
        js_int::int!(3).into(),
        js_int::int!(4).into(),
        js_int::int!(7).into(),
        "s".into(),
        "t".into(),
    ];
    let probe_json = |p: &ScalarJsonValue| serde_json::to_value(p).unwrap();
    let (mut n, mut f_paths, mut f_contains, mut f_panic) = (0u64, vec![], vec![], vec![]);
    let mut objects: Vec<Value> = vec![];
    for (i, k1) in keys.iter().enumerate() {
        for v1 in &vals {
            objects.push(json!({ *k1: v1 }));
            for k2 in keys.iter().skip(i + 1) {
                for v2 in &vals {
                    objects.push(json!({ *k1: v1, *k2: v2 }));
                }
            }
        }
    }
    // the same objects under a top-level key that is the empty string: {"": {"content": {...}}} has the paths `.content...`,
    // never the paths `content...` of a real content
    let mut events: Vec<Value> = objects.iter().map(|o| json!({"sender": "@o:s", "content": o})).collect();
    for o in objects.iter().step_by(7) {
        events.push(json!({"sender": "@o:s", "": {"content": o}}));
        events.push(json!({"sender": "@o:s", "": {"content": {"body": "x", "m.mentions": {"room": true}}}, "content": o}));
    }
    for ev in events {
        n += 1;
        let raw: Raw<Value> = Raw::new(&ev).unwrap();
        let flat = match std::panic::catch_unwind(|| FlattenedJson::from_raw(&raw)) {
            Ok(f) => f,
            Err(_) => {
                fail(&mut f_panic, json!({"event": ev, "observed": "panic in FlattenedJson::from_raw"}));
                continue;
            }
        };
        let mut want = vec![];
        oracle_flatten(&ev, None, &mut want);
        // nothing but the properties of the event is addressable: the keyword and mention conditions on a body that the
        // real content does not have must not hold
        if !want.iter().any(|(p, _)| p == "content.body") {
            let spoof = PushCondition::EventMatch { key: "content.body".to_owned(), pattern: "x".to_owned() }.applies(&flat, &c) || flat.get_str("content.body").is_some();
            if spoof {
                fail(&mut f_paths, json!({"event": ev, "path": "content.body", "observed": "addressable although the event has no such property"}));
            }
        }
        if !want.iter().any(|(p, _)| p == "content.m\\.mentions" || p.starts_with("content.m\\.mentions.")) && flat.contains_mentions() {
            fail(&mut f_paths, json!({"event": ev, "observed": "contains_mentions() although content has no m.mentions"}));
        }
        for (path, leaf) in &want {
            // EventPropertyIs on scalars, EventPropertyContains on arrays, for every probe value
            for p in &probes {
                let pj = probe_json(p);
                let is = PushCondition::EventPropertyIs { key: path.clone(), value: p.clone() }.applies(&flat, &c);
                let want_is = scalar_ok(leaf) && *leaf == pj;
                if is != want_is {
                    fail(&mut f_paths, json!({"event": ev, "path": path, "value": pj, "event_property_is": is, "expected": want_is}));
                }
                let contains = PushCondition::EventPropertyContains { key: path.clone(), value: p.clone() }.applies(&flat, &c);
                let want_c = leaf.as_array().is_some_and(|a| a.contains(&pj));
                if contains != want_c {
                    fail(&mut f_contains, json!({"event": ev, "path": path, "value": pj, "event_property_contains": contains, "expected": want_c}));
                }
            }
            let present = flat.get(path).is_some();
            if !present {
                fail(&mut f_paths, json!({"event": ev, "path": path, "observed": "path missing from the flattened event"}));
            }
        }
    }
    (n, f_paths, f_contains, f_panic)
}

/// `room_member_count` conditions: "is" = [op]N with op in {"", "==", "<", ">", "<=", ">="}
fn run_member_count() -> (u64, Vec<Value>) {
    let (mut n, mut f) = (0u64, vec![]);
    let mut c = ctx();
    for op in ["", "==", "<", ">", "<=", ">="] {
        for bound in 0u32..6 {
            let is = format!("{op}{bound}");
            let cond: PushCondition = match serde_json::from_value(json!({"kind": "room_member_count", "is": is})) {
                Ok(c) => c,
                Err(e) => {
                    fail(&mut f, json!({"is": is, "observed": format!("does not deserialize: {e}")}));
                    continue;
                }
            };
            let raw: Raw<Value> = Raw::new(&json!({"sender": "@o:s", "content": {}})).unwrap();
            let flat = FlattenedJson::from_raw(&raw);
            for count in 0u32..8 {
                n += 1;
                c.member_count = count.into();
                let want = match op {
                    "" | "==" => count == bound,
                    "<" => count < bound,
                    ">" => count > bound,
                    "<=" => count <= bound,
                    _ => count >= bound,
                };
                let got = cond.applies(&flat, &c);
                if got != want {
                    fail(&mut f, json!({"is": is, "member_count": count, "observed": got, "expected": want}));
                }
            }
        }
    }
    (n, f)
}

/// Rule selection: the first enabled rule all of whose conditions hold, kinds in the order override, content, room,
/// sender, underride and list order within a kind; nothing for an event sent by the user themselves.
/// Per kind one of 7 configurations of (matching / non-matching / disabled-but-matching) rules: 7^5 rulesets x 2 senders.
fn run_selection() -> (u64, Vec<Value>) {
    use ruma_common::push::{Action, NewConditionalPushRule, NewPatternedPushRule, NewPushRule, NewSimplePushRule, RuleKind, Ruleset};
    use ruma_common::OwnedRoomId;
    let (mut n, mut f) = (0u64, vec![]);
    let c = ctx();
    // rule descriptors: (suffix, matches, enabled)
    let configs: [&[(&str, bool, bool)]; 7] = [
        &[],
        &[("m", true, true)],
        &[("n", false, true)],
        &[("d", true, false)],
        &[("n", false, true), ("m", true, true)],
        &[("d", true, false), ("m", true, true)],
        &[("m", true, true), ("m2", true, true)],
    ];
    let kinds = ["override", "content", "room", "sender", "underride"];
    let raw_other: Raw<Value> = Raw::new(&json!({"sender": "@o:s", "room_id": "!r:s", "type": "m.room.message", "content": {"body": "hit"}})).unwrap();
    let raw_own: Raw<Value> = Raw::new(&json!({"sender": "@me:s", "room_id": "!r:s", "type": "m.room.message", "content": {"body": "hit"}})).unwrap();
    let mut idx = [0usize; 5];
    loop {
        let mut rs = Ruleset::new();
        let mut skip = false;
        // expected list order per kind as inserted: read back from the public sets below
        for (ki, kind) in kinds.iter().enumerate() {
            for (suffix, matches, enabled) in configs[idx[ki]] {
                let id = format!("{kind}_{suffix}");
                let cond = vec![PushCondition::EventMatch { key: "content.body".into(), pattern: if *matches { "hit".into() } else { "miss".into() } }];
                let (rule, rid): (NewPushRule, String) = match *kind {
                    "override" => (NewPushRule::Override(NewConditionalPushRule::new(id.clone(), cond, vec![Action::Notify])), id.clone()),
                    "underride" => (NewPushRule::Underride(NewConditionalPushRule::new(id.clone(), cond, vec![Action::Notify])), id.clone()),
                    "content" => (NewPushRule::Content(NewPatternedPushRule::new(id.clone(), if *matches { "hit".into() } else { "miss".into() }, vec![Action::Notify])), id.clone()),
                    "room" => {
                        // a room rule matches iff its id is the event's room: only one matching id exists
                        if *suffix == "m2" {
                            skip = true;
                            continue;
                        }
                        let rid = if *matches { "!r:s".to_owned() } else { "!other:s".to_owned() };
                        if *suffix == "d" && configs[idx[ki]].len() > 1 {
                            skip = true;
                            continue;
                        }
                        (NewPushRule::Room(NewSimplePushRule::new(OwnedRoomId::try_from(rid.as_str()).unwrap(), vec![Action::Notify])), rid)
                    }
                    _ => {
                        if *suffix == "m2" || (*suffix == "d" && configs[idx[ki]].len() > 1) {
                            skip = true;
                            continue;
                        }
                        let rid = if *matches { "@o:s".to_owned() } else { "@z:s".to_owned() };
                        (NewPushRule::Sender(NewSimplePushRule::new(OwnedUserId::try_from(rid.as_str()).unwrap(), vec![Action::Notify])), rid)
                    }
                };
                // append at the end of the kind's user rules: after the previously inserted rule
                if rs.insert(rule, None, None).is_err() {
                    skip = true;
                }
                if !enabled {
                    let _ = rs.set_enabled(RuleKind::from(*kind), &rid, false);
                }
            }
        }
        if !skip {
            // oracle over the public rule sets (list order = iteration order of each set)
            let mut want: Option<String> = None;
            let hit = |enabled: bool, matches: bool, id: String, want: &mut Option<String>| {
                if want.is_none() && enabled && matches {
                    *want = Some(id);
                }
            };
            for r in &rs.override_ {
                hit(r.enabled, r.rule_id.ends_with("_m") || r.rule_id.ends_with("_m2") || r.rule_id.ends_with("_d"), r.rule_id.clone(), &mut want);
            }
            for r in &rs.content {
                hit(r.enabled, r.pattern == "hit", r.rule_id.clone(), &mut want);
            }
            for r in &rs.room {
                hit(r.enabled, r.rule_id == "!r:s", r.rule_id.to_string(), &mut want);
            }
            for r in &rs.sender {
                hit(r.enabled, r.rule_id == "@o:s", r.rule_id.to_string(), &mut want);
            }
            for r in &rs.underride {
                hit(r.enabled, r.rule_id.ends_with("_m") || r.rule_id.ends_with("_m2") || r.rule_id.ends_with("_d"), r.rule_id.clone(), &mut want);
            }
            for (raw, own) in [(&raw_other, false), (&raw_own, true)] {
                n += 1;
                let got = rs.get_match(raw, &c).map(|r| r.rule_id().to_owned());
                let w = if own { None } else { want.clone() };
                if got != w {
                    fail(&mut f, json!({"ruleset": serde_json::to_value(&rs).unwrap(), "event_sender_is_the_user": own, "observed": got, "expected": w}));
                }
            }
        }
        // next index vector
        let mut k = 0;
        loop {
            idx[k] += 1;
            if idx[k] < configs.len() {
                break;
            }
            idx[k] = 0;
            k += 1;
            if k == 5 {
                return (n, f);
            }
        }
    }
}

pub fn run(tier: &str) -> Report {
    let thorough = tier == "thorough";
    let pat_alpha = ['a', 'B', '*', '?', ' ', '\u{e9}'];
    let mut val_alpha = vec!['a', 'A', 'b', ' ', '\u{e9}', '_'];
    if thorough {
        val_alpha.push('.');
    }
    let mut patterns = strings(&pat_alpha, 3, 1);
    let mut values = strings(&val_alpha, if thorough { 4 } else { 3 }, 0);
    // longer hand-picked cases from the property's quantifier: punctuation, newlines, non-ASCII, repeated partial matches
    for p in ["ab", "a*b", "a?b", "*a", "a*", "?", "??", "a??", "*", "ab*", "é", "é?", "?é", "a b", "b*a*b", "a.b", "a+b", "(a", "a\\b", "\u{1F600}", "a\u{1F600}?"] {
        patterns.push(p.to_owned());
    }
    for v in [
        "ab", "aab ab", "xab ab", "abx ab", "a\nb", "ab\nab", "a.b", "a+b", "(a)", "a\\b", "éab", "abé", "éabé", "é ab é", "aéb", "a\u{1F600}b", "\u{1F600}", "ab,ab",
        "xabab ab", "ab_ ab", "_ab", "ab!", "!ab!", "a  b", "AB", "aB Ab", "ÉA", "éa éb",
    ] {
        values.push(v.to_owned());
    }
    patterns.sort();
    patterns.dedup();
    values.sort();
    values.dedup();
    let nthreads = 12usize;
    let chunks: Vec<Vec<String>> = (0..nthreads).map(|t| values.iter().skip(t).step_by(nthreads).cloned().collect()).collect();
    let handles: Vec<_> = chunks
        .into_iter()
        .map(|c| {
            let p = patterns.clone();
            std::thread::spawn(move || run_glob(&p, &c))
        })
        .collect();
    let (mut n, mut f_word, mut f_whole, mut f_panic) = (0u64, vec![], vec![], vec![]);
    for h in handles {
        match h.join() {
            Ok((k, a, b, c)) => {
                n += k;
                for x in a {
                    fail(&mut f_word, x);
                }
                for x in b {
                    fail(&mut f_whole, x);
                }
                for x in c {
                    fail(&mut f_panic, x);
                }
            }
            Err(_) => fail(&mut f_panic, json!({"observed": "enumeration thread panicked"})),
        }
    }
    let (nf, f_paths, f_contains, f_fpanic) = run_flatten();
    let (nm, f_count) = run_member_count();
    let (ns, f_sel) = run_selection();
    for x in f_fpanic {
        fail(&mut f_panic, x);
    }
    // ---- events and patterns at the edges of what the dependencies accept: numbers that `Raw` takes but serde_json::Value cannot
    // hold, and wildcard patterns too big for the regex size limit. Rule evaluation must return (no panic).
    let mut n_edge = 0u64;
    let ruleset = ruma_common::push::Ruleset::server_default(&OwnedUserId::try_from("@me:s").unwrap());
    for text in [
        r#"{"sender":"@a:s","content":{"body":"x","n":1e999}}"#, r#"{"sender":"@a:s","n":-1e999}"#, r#"{"sender":"@a:s","n":123456789012345678901234567890}"#,
        r#"{"sender":"@a:s","content":{"body":"x","n":[1e400,{"m":1E309}]}}"#, r#"{"sender":"@a:s","n":1.7976931348623157e308}"#, r#"{"sender":"@a:s","n":-0.0e-999}"#,
    ] {
        n_edge += 1;
        let raw: Raw<Value> = Raw::from_json(serde_json::value::RawValue::from_string(text.to_owned()).unwrap());
        let r = std::panic::catch_unwind(|| {
            let f = FlattenedJson::from_raw(&raw);
            (f.get_str("sender").is_some(), ruleset.get_actions(&raw, &ctx()).len())
        });
        if r.is_err() {
            fail(&mut f_panic, json!({"event": text, "observed": "panic in FlattenedJson::from_raw / Ruleset::get_actions"}));
        }
    }
    let raw: Raw<Value> = Raw::new(&json!({"sender": "@a:s", "content": {"body": "hello world"}})).unwrap();
    for unit in ["?", "*a", "a?", "*"] {
        for nrep in [1_000usize, 30_000, 100_000] {
            n_edge += 1;
            let cond = PushCondition::EventMatch { key: "content.body".into(), pattern: unit.repeat(nrep) };
            let r = std::panic::catch_unwind(|| {
                let f = FlattenedJson::from_raw(&raw);
                cond.applies(&f, &ctx())
            });
            if r.is_err() {
                fail(&mut f_panic, json!({"pattern": format!("{unit:?} repeated {nrep} times"), "key": "content.body", "observed": "panic in PushCondition::applies"}));
            }
        }
    }
    // ---- contains_display_name: the display name is not a pattern; it matches as a whole, literally (case-insensitively),
    // on word boundaries of content.body
    let (mut n_dn, mut f_dn) = (0u64, vec![]);
    {
        let lit_word = |name: &str, body: &str| -> bool {
            let p = lower(name);
            let v = lower(body);
            if p == v {
                return true;
            }
            if p.is_empty() {
                return false;
            }
            let n = v.len();
            for i in 0..=n {
                if i + p.len() > n || v[i..i + p.len()] != p[..] {
                    continue;
                }
                let j = i + p.len();
                let before = i == 0 || !is_word(v[i - 1]) || !is_word(v[i]);
                let after = j == n || !is_word(v[j]) || !is_word(v[j - 1]);
                if before && after {
                    return true;
                }
            }
            false
        };
        let names = ["me", "Me", "*", "?", "a*", "a?b", "*a", "a b", "é", "a.b", "**", "a"];
        let bodies = ["hello me", "some", "me", "a*", "about that", "x a* y", "acb", "a?b", "axb a?b", "*", "hello * there", "?", "what?", "é", "ée é", "a b", "xa b", "a.b", "aXb", "ba", "*a", "",
            "ME!", "a", "**"];
        for name in names {
            let mut c = ctx();
            c.user_display_name = name.to_owned();
            for body in bodies {
                n_dn += 1;
                let raw: Raw<Value> = Raw::new(&json!({"sender": "@o:s", "content": {"body": body}})).unwrap();
                let flat = FlattenedJson::from_raw(&raw);
                let got = std::panic::catch_unwind(std::panic::AssertUnwindSafe(|| PushCondition::ContainsDisplayName.applies(&flat, &c)));
                let want = lit_word(name, body);
                match got {
                    Err(_) => fail(&mut f_panic, json!({"display_name": name, "body": body, "observed": "panic"})),
                    Ok(g) if g != want => fail(&mut f_dn, json!({"display_name": name, "body": body, "contains_display_name": g, "expected": want})),
                    _ => {}
                }
            }
        }
    }
    // ---- case-insensitivity is a property of each character: a letter matches itself in the other case wherever it stands,
    // and `?` matches one character whatever its lowercase form looks like
    let (mut n_ci, mut f_ci) = (0u64, vec![]);
    for (p, v) in [("\u{c9}*", "\u{e9}a"), ("\u{391}\u{3a3}*", "\u{391}\u{3a3}\u{391}"), ("*\u{3a3}", "\u{391}\u{3a3}"), ("a?b", "a\u{130}b"), ("?", "\u{130}")] {
        n_ci += 1;
        let raw: Raw<Value> = Raw::new(&json!({"sender": "@o:s", "content": {"other": v}})).unwrap();
        let flat = FlattenedJson::from_raw(&raw);
        let cond = PushCondition::EventMatch { key: "content.other".to_owned(), pattern: p.to_owned() };
        match std::panic::catch_unwind(std::panic::AssertUnwindSafe(|| cond.applies(&flat, &ctx()))) {
            Err(_) => fail(&mut f_panic, json!({"pattern": p, "value": v, "observed": "panic"})),
            Ok(false) => fail(&mut f_ci, json!({"key": "content.other", "pattern": p, "value": v, "observed": false, "expected": true})),
            Ok(true) => {}
        }
    }
    let n = n + n_edge + n_dn + n_ci;
    Report {
        bound: format!(
            "glob: {} patterns (all of length 1..3 over {{a,B,*,?,space,é}} + {} longer) x {} values (all of length 0..{} over {:?} + longer cases) x {{content.body, other key}}; flattening: {} objects with <= 2 entries over 5 keys x 14 values, 10 probe scalars per path, also under a top-level empty key; contains_display_name: 12 display names (incl. ones with * and ?) x 25 bodies; room_member_count: 6 operators x bounds 0..5 x member counts 0..7; rule selection: 7 per-kind configurations ^ 5 kinds x own/other sender",
            patterns.len(),
            21,
            values.len(),
            if thorough { 4 } else { 3 },
            val_alpha,
            nf
        ),
        cases: n + nf,
        obligations: vec![
            ("content_body_glob_matches_on_word_boundaries", n / 2, f_word),
            ("other_keys_glob_matches_the_whole_value", n / 2, f_whole),
            ("flattened_paths_and_scalar_values_match_the_spec", nf, f_paths),
            ("array_contains_sees_every_scalar_element", nf, f_contains),
            ("display_name_is_matched_literally_on_word_boundaries", n_dn, f_dn),
            ("case_insensitive_matching_is_per_character", n_ci, f_ci),
            ("room_member_count_comparisons_match_the_spec", nm, f_count),
            ("first_enabled_matching_rule_in_kind_and_list_order", ns, f_sel),
            ("pattern_matching_and_flattening_never_panic", n + nf, f_panic),
        ],
    }
}
