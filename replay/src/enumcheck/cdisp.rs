//! C16 / C17 bounded stand-in for the typed `Content-Disposition` header (the type behind `#[ruma_api(header = CONTENT_DISPOSITION)]`
//! fields of the media endpoints): `Display` then `FromStr` / `TryFrom<&[u8]>` gives back the same disposition type and
//! file name, the re-encoded text is identical, and parsing mutated header texts never panics.
//! (The cursor parser is proved panic-free by unit `hdr`; RFC 8187 percent-encoding goes through the percent-encoding
//! crate and is only reachable by enumeration.)
//!
//! Space: 3 disposition types x file names = every string of length <= 3 over 14 characters (ASCII letter, space, quote,
//! backslash, apostrophe, percent, asterisk, semicolon, equals, control, DEL, é, an astral character, slash) plus fixed
//! longer names; header texts: every prefix of every produced header, each produced header with one character
//! replaced by each of 6 characters, and three multi-parameter headers with every run of up to 11 characters deleted;
//! a watchdog reports a text on which parsing does not return within 10 seconds.
use ruma_common::http_headers::{ContentDisposition, ContentDispositionType};
use serde_json::{json, Value};

use super::Report;

fn fail(v: &mut Vec<Value>, x: Value) {
    if v.len() < 30 {
        v.push(x);
    }
}

/// what the ASCII branch of Display keeps: visible characters, space and tab
fn quotable(c: char) -> bool {
    matches!(c, '\x21'..='\x7E' | '\x09' | '\x20')
}

pub fn run(tier: &str) -> Report {
    let chars = ['a', ' ', '"', '\\', '\'', '%', '*', ';', '=', '\u{1}', '\u{7f}', '\u{e9}', '\u{1F600}', '/'];
    let maxlen = if tier == "thorough" { 4 } else { 3 };
    let mut names: Vec<String> = vec![String::new()];
    let mut layer = vec![String::new()];
    for _ in 0..maxlen {
        let mut next = vec![];
        for s in &layer {
            for c in chars {
                next.push(format!("{s}{c}"));
            }
        }
        names.extend(next.iter().cloned());
        layer = next;
    }
    names.extend(["L'\u{e9}t\u{e9}.png", "%C3%A9 = \u{e9}", "50%.txt", "na\u{ef}ve file (1).tar.gz", "utf-8''x\u{e9}", "a*b'c%20\u{e9}", "\u{e9}%", "%\u{e9}%4"].map(String::from));
    let (mut n, mut f_rt, mut f_panic) = (0u64, vec![], vec![]);
    let mut headers: Vec<String> = vec![];
    for ty in ["inline", "attachment", "form-data"] {
        let dt = ContentDispositionType::parse(ty).unwrap();
        for name in std::iter::once(None).chain(names.iter().map(Some)) {
            n += 1;
            let cd = ContentDisposition::new(dt.clone()).with_filename(name.cloned());
            let r = std::panic::catch_unwind(|| {
                let text = cd.to_string();
                let back: Result<ContentDisposition, _> = text.parse();
                let back_bytes = ContentDisposition::try_from(text.as_bytes());
                (text, back, back_bytes)
            });
            match r {
                Err(_) => fail(&mut f_panic, json!({"type": ty, "filename": name, "observed": "panic while formatting / parsing"})),
                Ok((text, back, back_bytes)) => {
                    if headers.len() < 4000 {
                        headers.push(text.clone());
                    }
                    let want: Option<String> = name.map(|s| if s.is_ascii() { s.chars().filter(|c| quotable(*c)).collect() } else { s.clone() });
                    let ok = match (&back, &back_bytes) {
                        (Ok(b), Ok(b2)) => b.disposition_type == dt && b.filename == want && b2 == b && b.to_string() == text,
                        _ => false,
                    };
                    if !ok {
                        fail(&mut f_rt, json!({"type": ty, "filename": name, "header": text, "parsed_back": format!("{back:?}"), "expected_filename": want}));
                    }
                }
            }
        }
    }
    // parsing mutated header texts never panics and always returns: the texts are walked by a worker thread under a watchdog
    headers.sort();
    headers.dedup();
    let mut texts: Vec<String> = vec![];
    for h in &headers {
        let cs: Vec<char> = h.chars().collect();
        texts.extend((0..=cs.len()).map(|i| cs[..i].iter().collect::<String>()));
        for i in 0..cs.len() {
            for r in ['"', '\\', ';', '=', '%', '\u{e9}'] {
                let mut m = cs.clone();
                m[i] = r;
                texts.push(m.iter().collect());
            }
        }
    }
    // several parameters, with one character deleted / a name or value emptied
    for base in ["inline; filename=a; x=y;", "attachment; filename=my_file; name=\"q\"; filename*=utf-8''%C3%A9", "form-data; name=\"f\"; filename=\"a;b\"; z"] {
        let cs: Vec<char> = base.chars().collect();
        for i in 0..cs.len() {
            let mut m = cs.clone();
            m.remove(i);
            texts.push(m.iter().collect());
            for j in i + 1..cs.len().min(i + 12) {
                let mut m2 = cs.clone();
                m2.drain(i..j);
                texts.push(m2.iter().collect());
            }
        }
    }
    texts.sort();
    texts.dedup();
    let total_texts = texts.len();
    let (tx, rx) = std::sync::mpsc::channel::<(usize, bool)>();
    let work = texts.clone();
    std::thread::spawn(move || {
        for (i, t) in work.iter().enumerate() {
            let ok = std::panic::catch_unwind(|| (t.parse::<ContentDisposition>().is_ok(), ContentDisposition::try_from(t.as_bytes()).is_ok())).is_ok();
            if tx.send((i, ok)).is_err() {
                return;
            }
        }
    });
    let mut f_hang: Vec<Value> = vec![];
    let mut done = 0usize;
    while done < total_texts {
        match rx.recv_timeout(std::time::Duration::from_secs(10)) {
            Ok((i, ok)) => {
                done = i + 1;
                n += 1;
                if !ok {
                    fail(&mut f_panic, json!({"header": texts[i], "observed": "panic while parsing"}));
                }
            }
            Err(_) => {
                f_hang.push(json!({"header": texts[done], "observed": "no result within 10 seconds: parsing does not terminate"}));
                break;
            }
        }
    }
    Report {
        bound: format!("3 disposition types x {} file names (all strings of length <= {maxlen} over 14 characters + 8 fixed names); {} header texts with every prefix and every single-character replacement by 6 characters", names.len(), headers.len()),
        cases: n,
        obligations: vec![
            ("content_disposition_survives_format_then_parse_and_reencodes_identically", n, f_rt),
            ("content_disposition_formatting_and_parsing_never_panic", n, f_panic),
            ("content_disposition_parsing_always_returns", total_texts as u64, f_hang),
        ],
    }
}
