//! C13 bounded stand-in: edit operations on the REAL `Ruleset` (real `indexmap::IndexSet`, which the Verus unit `push`
//! only knows through an assumed contract) against the placement semantics of the property statement:
//!  * a new rule goes before the first user rule of its kind (after the server-default rules that must stay on top
//!    for `override`), or directly before `before`, or directly after `after`; an existing rule keeps its enabled flag
//!    and, without anchors, its position; anchors must exist, must not be server-default rules and `after` must rank
//!    above `before`;
//!  * an operation that fails leaves the ruleset exactly as it was;
//!  * remove / set_enabled / set_actions touch exactly the named rule; server-default rules cannot be removed.
//! Space: every sequence of up to 3 (quick) / 4 (thorough, override only) operations from the 95 operations over the
//! ids {a, b, c}, anchors {none, a, b, c, missing, .m.rule.master} on the kinds override and content, from the empty
//! ruleset and from `Ruleset::server_default`.
use ruma_common::push::{Action, NewConditionalPushRule, NewPatternedPushRule, NewPushRule, RuleKind, Ruleset};
use serde_json::{json, Value};

use super::Report;

#[derive(Clone, Debug, PartialEq)]
struct R {
    id: String,
    enabled: bool,
    default: bool,
    nactions: usize,
}

#[derive(Clone, Debug)]
enum Op {
    Insert(&'static str, Option<&'static str>, Option<&'static str>),
    Remove(&'static str),
    Enable(&'static str, bool),
    Actions(&'static str),
}

fn model_apply(kind: &str, s: &mut Vec<R>, op: &Op) -> bool {
    let idx = |s: &Vec<R>, id: &str| s.iter().position(|r| r.id == id);
    match op {
        Op::Insert(rid, after, before) => {
            if rid.starts_with('.') {
                return false;
            }
            for a in [after, before].into_iter().flatten() {
                if a.starts_with('.') || idx(s, a).is_none() {
                    return false;
                }
            }
            if let (Some(a), Some(b)) = (after, before) {
                if !(idx(s, a).unwrap() < idx(s, b).unwrap()) {
                    return false;
                }
            }
            let oi = idx(s, rid);
            let enabled = oi.map(|i| s[i].enabled).unwrap_or(true);
            let base: Vec<R> = s.iter().filter(|r| r.id != *rid).cloned().collect();
            let bidx = |id: &str| base.iter().position(|r| r.id == id).unwrap();
            let p = if let Some(b) = before {
                if b == rid { oi.unwrap() } else { bidx(b) }
            } else if let Some(a) = after {
                if a == rid { oi.unwrap() } else { bidx(a) + 1 }
            } else if let Some(i) = oi {
                i
            } else {
                // new rules rank above the other user rules; `.m.rule.master` stays first among the overrides
                // ("second after the master rule for overrides": when the master rule is there)
                let dflt = if kind == "override" && base.first().is_some_and(|r| r.id == ".m.rule.master") { 1 } else { 0 };
                dflt.min(base.len())
            };
            let mut out = base;
            out.insert(p, R { id: rid.to_string(), enabled, default: false, nactions: 1 });
            *s = out;
            true
        }
        Op::Remove(rid) => match idx(s, rid) {
            Some(i) if !s[i].default => {
                s.remove(i);
                true
            }
            _ => false,
        },
        Op::Enable(rid, e) => match idx(s, rid) {
            Some(i) => {
                s[i].enabled = *e;
                true
            }
            None => false,
        },
        Op::Actions(rid) => match idx(s, rid) {
            Some(i) => {
                s[i].nactions = 0;
                true
            }
            None => false,
        },
    }
}

fn real_apply(kind: &str, rs: &mut Ruleset, op: &Op) -> bool {
    let k = RuleKind::from(kind);
    match op {
        Op::Insert(rid, after, before) => {
            let new = if kind == "override" {
                NewPushRule::Override(NewConditionalPushRule::new(rid.to_string(), vec![], vec![Action::Notify]))
            } else {
                // a re-inserted rule comes with a different pattern each time (the identity of a rule is its id alone)
                NewPushRule::Content(NewPatternedPushRule::new(rid.to_string(), format!("p-{}-{}", after.unwrap_or("none"), before.unwrap_or("none")), vec![Action::Notify]))
            };
            rs.insert(new, *after, *before).is_ok()
        }
        Op::Remove(rid) => rs.remove(k, rid).is_ok(),
        Op::Enable(rid, e) => rs.set_enabled(k, rid, *e).is_ok(),
        Op::Actions(rid) => rs.set_actions(k, rid, vec![]).is_ok(),
    }
}

fn snapshot(kind: &str, rs: &Ruleset) -> Vec<R> {
    if kind == "override" {
        rs.override_.iter().map(|r| R { id: r.rule_id.clone(), enabled: r.enabled, default: r.default, nactions: r.actions.len() }).collect()
    } else {
        rs.content.iter().map(|r| R { id: r.rule_id.clone(), enabled: r.enabled, default: r.default, nactions: r.actions.len() }).collect()
    }
}

fn other_kinds(kind: &str, rs: &Ruleset) -> Value {
    let mut v = serde_json::to_value(rs).unwrap();
    if let Some(o) = v.as_object_mut() {
        o.remove(kind);
    }
    v
}

fn fail(v: &mut Vec<Value>, x: Value) {
    if v.len() < 25 {
        v.push(x);
    }
}

fn run_kind(kind: &'static str, start_default: bool, depth: usize) -> (u64, Vec<Value>, Vec<Value>, Vec<Value>, Vec<Value>) {
    let ids = ["a", "b", "c"];
    let anchors: [Option<&'static str>; 6] = [None, Some("a"), Some("b"), Some("c"), Some("zz"), Some(".m.rule.master")];
    let mut ops: Vec<Op> = vec![];
    for id in ids {
        for a in anchors {
            for b in anchors {
                if (a == Some("zz") || a == Some(".m.rule.master")) && (b == Some("zz") || b == Some(".m.rule.master")) {
                    continue;
                }
                ops.push(Op::Insert(id, a, b));
            }
        }
        ops.push(Op::Remove(id));
        ops.push(Op::Enable(id, true));
        ops.push(Op::Enable(id, false));
        ops.push(Op::Actions(id));
    }
    ops.push(Op::Insert(".m.rule.x", None, None));
    ops.push(Op::Remove(".m.rule.master"));
    ops.push(Op::Enable(".m.rule.master", false));
    let user = <&ruma_common::UserId>::try_from("@u:s").unwrap();
    let start = if start_default { Ruleset::server_default(user) } else { Ruleset::new() };
    let (mut n, mut f_place, mut f_atomic, mut f_frame, mut f_panic) = (0u64, vec![], vec![], vec![], vec![]);
    // depth-first over operation sequences, carrying the real ruleset and the model
    fn rec(
        kind: &'static str, ops: &[Op], depth: usize, rs: &Ruleset, model: &Vec<R>, trail: &mut Vec<String>, n: &mut u64,
        f_place: &mut Vec<Value>, f_atomic: &mut Vec<Value>, f_frame: &mut Vec<Value>, f_panic: &mut Vec<Value>,
    ) {
        if depth == 0 {
            return;
        }
        for op in ops {
            *n += 1;
            let mut rs2 = rs.clone();
            let mut m2 = model.clone();
            let want_ok = model_apply(kind, &mut m2, op);
            let others_before = other_kinds(kind, rs);
            let got = std::panic::catch_unwind(std::panic::AssertUnwindSafe(|| real_apply(kind, &mut rs2, op)));
            trail.push(format!("{op:?}"));
            match got {
                Err(_) => fail(f_panic, json!({"kind": kind, "operations": trail.clone(), "observed": "panic"})),
                Ok(got_ok) => {
                    let snap = snapshot(kind, &rs2);
                    if got_ok != want_ok || (got_ok && snap != m2) {
                        fail(f_place, json!({"kind": kind, "operations": trail.clone(), "returned_ok": got_ok, "expected_ok": want_ok,
                            "rules_after": snap.iter().map(|r| format!("{}:{}:{}:{}", r.id, r.enabled as u8, r.default as u8, r.nactions)).collect::<Vec<_>>(),
                            "expected_after": m2.iter().map(|r| format!("{}:{}:{}:{}", r.id, r.enabled as u8, r.default as u8, r.nactions)).collect::<Vec<_>>()}));
                    } else if !got_ok && snap != *model {
                        fail(f_atomic, json!({"kind": kind, "operations": trail.clone(), "observed": "the failed operation changed the ruleset",
                            "rules_after": snap.iter().map(|r| r.id.clone()).collect::<Vec<_>>()}));
                    }
                    if other_kinds(kind, &rs2) != others_before {
                        fail(f_frame, json!({"kind": kind, "operations": trail.clone(), "observed": "rules of another kind changed"}));
                    }
                    if got_ok == want_ok && snap == m2 {
                        rec(kind, ops, depth - 1, &rs2, &m2, trail, n, f_place, f_atomic, f_frame, f_panic);
                    }
                }
            }
            trail.pop();
        }
    }
    let model = snapshot(kind, &start);
    rec(kind, &ops, depth, &start, &model, &mut vec![], &mut n, &mut f_place, &mut f_atomic, &mut f_frame, &mut f_panic);
    (n, f_place, f_atomic, f_frame, f_panic)
}

pub fn run(tier: &str) -> Report {
    let thorough = tier == "thorough";
    let jobs: Vec<(&'static str, bool, usize)> = vec![
        ("override", false, 3),
        ("override", true, if thorough { 3 } else { 2 }),
        ("content", false, 3),
        ("content", true, 2),
    ];
    let handles: Vec<_> = jobs.into_iter().map(|(k, d, depth)| std::thread::spawn(move || run_kind(k, d, depth))).collect();
    let (mut n, mut f_place, mut f_atomic, mut f_frame, mut f_panic) = (0u64, vec![], vec![], vec![], vec![]);
    for h in handles {
        match h.join() {
            Ok((k, a, b, c, d)) => {
                n += k;
                for x in a { fail(&mut f_place, x); }
                for x in b { fail(&mut f_atomic, x); }
                for x in c { fail(&mut f_frame, x); }
                for x in d { fail(&mut f_panic, x); }
            }
            Err(_) => fail(&mut f_panic, json!({"observed": "enumeration thread panicked"})),
        }
    }
    Report {
        bound: format!("every sequence of up to 3 operations (2 from the server-default ruleset{}) out of 120 (insert of a/b/c with 6x6 anchor pairs, remove, enable/disable, set_actions, server-default ids) on the kinds override and content: {} operation applications", if thorough { ", 3 for override in this tier" } else { "" }, n),
        cases: n,
        obligations: vec![
            ("edits_place_rules_as_the_statement_says", n, f_place),
            ("a_failed_edit_leaves_the_ruleset_unchanged", n, f_atomic),
            ("edits_touch_only_the_kind_they_name", n, f_frame),
            ("ruleset_edits_never_panic", n, f_panic),
        ],
    }
}
