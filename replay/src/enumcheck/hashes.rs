//! C05 bounded stand-in / witness source: content_hash and reference_hash of ruma-signatures on the real code,
//! compared with the definition in the Matrix specification computed independently here (sha2 + base64 crates):
//!   content hash   = sha256(canonical_json(event - {hashes, signatures, unsigned}))
//!   reference hash = sha256(canonical_json(redact(event) - {signatures, unsigned})), unpadded base64, standard
//!                    alphabet for event-id formats v1/v2 (room versions 1-3), URL-safe afterwards
//!   both fail for a JSON text longer than 65535 bytes.
//! Space: every subset of 13 top-level keys (type, content, hashes, signatures, unsigned, sender, depth, age_ts, outlier, destinations, prev_state,
//! origin, x.extra) x 3 event types x every RoomVersionRules constant V1..V11.
use base64::Engine;
use ruma_common::{canonical_json::redact, room_version_rules::{EventIdFormatVersion, RoomVersionRules}, CanonicalJsonObject, CanonicalJsonValue};
use serde_json::{json, Value};
use sha2::{Digest, Sha256};

use super::Report;

fn fail(v: &mut Vec<Value>, x: Value) {
    if v.len() < 30 {
        v.push(x);
    }
}

fn without(o: &CanonicalJsonObject, keys: &[&str]) -> CanonicalJsonObject {
    let mut c = o.clone();
    for k in keys {
        c.remove(*k);
    }
    c
}

pub fn run(_tier: &str) -> Report {
    let versions: [(&str, RoomVersionRules); 11] = [
        ("V1", RoomVersionRules::V1), ("V2", RoomVersionRules::V2), ("V3", RoomVersionRules::V3), ("V4", RoomVersionRules::V4),
        ("V5", RoomVersionRules::V5), ("V6", RoomVersionRules::V6), ("V7", RoomVersionRules::V7), ("V8", RoomVersionRules::V8),
        ("V9", RoomVersionRules::V9), ("V10", RoomVersionRules::V10), ("V11", RoomVersionRules::V11),
    ];
    let keys = ["content", "hashes", "signatures", "unsigned", "sender", "depth", "origin", "x.extra", "age_ts", "event_id", "destinations", "prev_state"];
    let (mut n, mut f_content, mut f_ref, mut f_size, mut f_panic) = (0u64, vec![], vec![], vec![], vec![]);
    for ty in ["m.room.message", "m.room.member", "m.room.create"] {
        for subset in 0u32..(1 << keys.len()) {
            let mut ev = CanonicalJsonObject::new();
            ev.insert("type".into(), CanonicalJsonValue::String(ty.into()));
            for (i, k) in keys.iter().enumerate() {
                if subset & (1 << i) == 0 {
                    continue;
                }
                let v: Value = match *k {
                    "content" => json!({"body": "b", "membership": "join", "creator": "@c:s", "x": {"y": [1, null]}}),
                    "hashes" => json!({"sha256": "aGFzaA"}),
                    "signatures" => json!({"s": {"ed25519:1": "c2ln"}}),
                    "unsigned" => json!({"age": 5}),
                    "depth" => json!(7),
                    "age_ts" => json!(1000),
                    "event_id" => json!("$one:domain"),
                    "destinations" => json!(["a.org", "b.org"]),
                    _ => json!(format!("v-{k}")),
                };
                ev.insert((*k).into(), v.try_into().unwrap());
            }
            let want_content = {
                let text = serde_json::to_string(&without(&ev, &["hashes", "signatures", "unsigned"])).unwrap();
                Sha256::digest(text.as_bytes()).to_vec()
            };
            n += 1;
            match std::panic::catch_unwind(|| ruma_signatures::content_hash(&ev)) {
                Err(_) => fail(&mut f_panic, json!({"event": serde_json::to_value(&ev).unwrap(), "observed": "panic in content_hash"})),
                Ok(Err(e)) => fail(&mut f_content, json!({"event": serde_json::to_value(&ev).unwrap(), "observed": e.to_string()})),
                Ok(Ok(h)) => {
                    if h.as_bytes() != want_content.as_slice() {
                        fail(&mut f_content, json!({"event": serde_json::to_value(&ev).unwrap(), "observed": h.encode(),
                            "expected": "sha256 of the canonical JSON without hashes, signatures, unsigned"}));
                    }
                }
            }
            for (vname, rules) in &versions {
                n += 1;
                let want_ref = match redact(ev.clone(), &rules.redaction, None) {
                    Ok(red) => {
                        let text = serde_json::to_string(&without(&red, &["signatures", "unsigned"])).unwrap();
                        let d = Sha256::digest(text.as_bytes());
                        Some(match rules.event_id_format {
                            EventIdFormatVersion::V1 | EventIdFormatVersion::V2 => base64::engine::general_purpose::STANDARD_NO_PAD.encode(d),
                            _ => base64::engine::general_purpose::URL_SAFE_NO_PAD.encode(d),
                        })
                    }
                    Err(_) => None,
                };
                match std::panic::catch_unwind(|| ruma_signatures::reference_hash(&ev, rules)) {
                    Err(_) => fail(&mut f_panic, json!({"event": serde_json::to_value(&ev).unwrap(), "version": vname, "observed": "panic in reference_hash"})),
                    Ok(r) => {
                        let got = r.ok();
                        if got != want_ref {
                            fail(&mut f_ref, json!({"event": serde_json::to_value(&ev).unwrap(), "version": vname, "observed": got, "expected": want_ref,
                                "definition": "unpadded base64 of sha256(canonical JSON of the redacted event without signatures and unsigned)"}));
                        }
                    }
                }
            }
        }
    }
    // size limit: 65535 bytes of canonical JSON are accepted, 65536 are not
    for extra in [0usize, 1] {
        n += 1;
        let mut ev = CanonicalJsonObject::new();
        ev.insert("type".into(), CanonicalJsonValue::String("m.room.create".into()));
                let framing = serde_json::to_string(&{ let mut e = ev.clone(); e.insert("sender".into(), CanonicalJsonValue::String(String::new())); e }).unwrap().len();
        // `sender` survives redaction, so the redacted event has the same size
        ev.insert("sender".into(), CanonicalJsonValue::String("a".repeat(65535 - framing + extra)));
        let len = serde_json::to_string(&ev).unwrap().len();
        let c = ruma_signatures::content_hash(&ev).is_ok();
        let r = ruma_signatures::reference_hash(&ev, &RoomVersionRules::V11).is_ok();
        let want = len <= 65535;
        if c != want || r != want {
            fail(&mut f_size, json!({"canonical_json_bytes": len, "content_hash_ok": c, "reference_hash_ok": r, "expected_ok": want}));
        }
    }
    // the same limit when the bytes sit in a field that redaction removes: the event is over the limit, what is hashed for
    // the reference hash is small
    let mut n_size = 2u64;
    for (ty, rules) in [("m.room.message", RoomVersionRules::V1), ("m.room.message", RoomVersionRules::V3), ("m.room.message", RoomVersionRules::V4), ("m.room.message", RoomVersionRules::V11), ("m.room.topic", RoomVersionRules::V10)] {
        for (place, extra) in [("content.body", 0usize), ("content.body", 1), ("an unspecified top-level key", 0), ("an unspecified top-level key", 1)] {
            n += 1;
            n_size += 1;
            let build = |fill: usize| {
                let mut ev = CanonicalJsonObject::new();
                ev.insert("type".into(), CanonicalJsonValue::String(ty.into()));
                ev.insert("sender".into(), CanonicalJsonValue::String("@a:s".into()));
                let mut content = CanonicalJsonObject::new();
                content.insert("body".into(), CanonicalJsonValue::String(if place == "content.body" { "a".repeat(fill) } else { String::new() }));
                ev.insert("content".into(), CanonicalJsonValue::Object(content));
                if place != "content.body" {
                    ev.insert("x_extra".into(), CanonicalJsonValue::String("a".repeat(fill)));
                }
                ev
            };
            let framing = serde_json::to_string(&build(0)).unwrap().len();
            let ev = build(65535 - framing + extra);
            let len = serde_json::to_string(&ev).unwrap().len();
            let c = ruma_signatures::content_hash(&ev).is_ok();
            let r = ruma_signatures::reference_hash(&ev, &rules).is_ok();
            let want = len <= 65535;
            if c != want || r != want {
                fail(&mut f_size, json!({"type": ty, "event_id_format": format!("{:?}", rules.event_id_format), "oversize_bytes_in": place, "canonical_json_bytes": len, "content_hash_ok": c, "reference_hash_ok": r, "expected_ok": want}));
            }
        }
    }
    Report {
        bound: "every subset of 12 optional top-level keys (incl. event_id and the transient keys age_ts / destinations other implementations strip) x 3 event types x RoomVersionRules V1..V11; size limit at 65535/65536 bytes with the bytes in a field that redaction keeps, in content.body and in an unspecified top-level key (5 event type / room version pairs)".to_owned(),
        cases: n,
        obligations: vec![
            ("content_hash_is_sha256_of_event_without_hashes_signatures_unsigned", (3 << keys.len()) as u64, f_content),
            ("reference_hash_is_sha256_of_redacted_event_without_signatures_unsigned", (33 << keys.len()) as u64, f_ref),
            ("hashing_rejects_events_over_65535_bytes_only", n_size, f_size),
            ("hash_functions_never_panic", n, f_panic),
        ],
    }
}
