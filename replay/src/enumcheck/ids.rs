//! C10 / C17 bounded stand-in for the identifier *types* of ruma-common (the `IdZst` macro expansion with its
//! transmute-based borrowed / owned / Arc / Rc / Box forms, serde, and the component accessors), which neither
//! verifier can ingest. The validators themselves are proved (units idv, idc).
//!
//! For every candidate string of the space and every identifier type:
//!  * parsing never panics; if it succeeds the identifier is stored byte for byte (`as_str() == input`), the owned,
//!    `Arc`, `Rc`, `Box` and serde (JSON string) forms agree, and deserializing fails exactly when parsing fails;
//!  * component accessors never panic and recompose to the original string;
//!  * identifiers built by the constructors (`parse_with_server_name`, `from_parts`, `matrix.to`-independent `new`
//!    functions that need no randomness) are accepted by the parser.
//!
//! Space: the cross product sigil x localpart x ':' x host x port from the lists below (incl. empty parts, IPv6
//! literals, non-ASCII, NUL, 255/256-byte boundaries) and mxc / key id shapes.
use std::{rc::Rc, sync::Arc};

use ruma_common::{
    DeviceKeyId, EventId, MxcUri, OwnedEventId, OwnedRoomAliasId, OwnedRoomId, OwnedRoomOrAliasId, OwnedServerName, OwnedUserId, RoomAliasId, RoomId,
    RoomOrAliasId, ServerName, UserId,
};
use serde_json::{json, Value};

use super::Report;

fn fail(v: &mut Vec<Value>, x: Value) {
    if v.len() < 30 {
        v.push(x);
    }
}

fn candidates(thorough: bool) -> Vec<String> {
    let mut hosts = vec!["", "a", "a.b", "A-1.x", "1.2.3.4", "[::1]", "[1:2::3]", "[", "[::1", "a]", "é", "a b", "[::1]é"];
    let mut ports = vec!["", ":", ":0", ":80", ":65535", ":65536", ":99999", ":123456", ":8a", ":+80"];
    let mut locals = vec!["", "a", "A", "a.b=_-/+", "a b", "a\0b", "é", "a:b", "💥"];
    if thorough {
        hosts.extend(["-", ".", "a..b", "1.2.3", "999.1.1.1", "[::]", "[::ffff:1.2.3.4]", "[1::2::3]", "[g::1]", "[]", "]", "[[::1]]", "a_b", "xn--e1afmkfd.xn--p1ai", "A", "\u{0}", "a:b"]);
        ports.extend([":00000", ":000000", ":65535x", ":-1", ": 80", ":80 ", ":0x50", ":٣", ":8:0", "::"]);
        locals.extend(["@", "!", "#", "$", "%41", "a/b", "_", "~", "\u{7f}", "a\nb", "\u{80}", "Ǆ"]);
    }
    let mut out = vec![];
    for sigil in ["@", "!", "#", "$", ""] {
        for l in &locals {
            for h in &hosts {
                for p in &ports {
                    out.push(format!("{sigil}{l}:{h}{p}"));
                }
            }
            out.push(format!("{sigil}{l}"));
        }
    }
    for h in &hosts {
        for p in &ports {
            out.push(format!("{h}{p}"));
            for m in ["", "/", "/a", "/aZ09-_", "/a/b", "/é"] {
                out.push(format!("mxc://{h}{p}{m}"));
            }
        }
    }
    for a in ["", "ed25519", "curve25519", "signed_curve25519", "é", "a"] {
        for k in ["", "x", "ABC", "a:b", "é", "_", "AAAA:BBBB", "a+/=", "a-b", ":", ":x", "x:"] {
            out.push(format!("{a}:{k}"));
        }
        out.push(a.to_owned());
    }
    for n in [253usize, 254, 255, 256] {
        out.push(format!("@{}:a", "a".repeat(n - 3)));
        out.push(format!("${}", "a".repeat(n - 1)));
        out.push(format!("!{}", "a".repeat(n - 1)));
        out.push(format!("#{}:a", "é".repeat((n - 3) / 2)));
        out.push(format!("{}:x", "a".repeat(n)));
        out.push(format!("ed25519:{}:x", "a".repeat(n - 8)));
        out.push(format!("ed25519:{}:é", "a".repeat(n - 8)));
        out.push(format!("mxc://{}/x", "a".repeat(n - 8)));
    }
    out.sort();
    out.dedup();
    out
}

macro_rules! forms {
    ($borrowed:ty, $owned:ty, $s:expr, $f_forms:expr) => {{
        let s: &str = $s;
        let r = <&$borrowed>::try_from(s);
        let o = <$owned>::try_from(s);
        let a: Result<Arc<$borrowed>, _> = <$borrowed>::parse_arc(s);
        let rc: Result<Rc<$borrowed>, _> = <$borrowed>::parse_rc(s);
        let bx: Result<Box<$borrowed>, _> = <$borrowed>::parse_box(s);
        let de: Result<$owned, _> = serde_json::from_value(json!(s));
        let all_ok = [r.is_ok(), o.is_ok(), a.is_ok(), rc.is_ok(), bx.is_ok(), de.is_ok()];
        if all_ok.iter().any(|x| *x != all_ok[0]) {
            fail($f_forms, json!({"type": stringify!($borrowed), "input": s, "accepted_by": {"borrowed": all_ok[0], "owned": all_ok[1], "arc": all_ok[2], "rc": all_ok[3], "box": all_ok[4], "serde": all_ok[5]}}));
        }
        if let (Ok(r), Ok(o), Ok(a), Ok(rc), Ok(bx), Ok(de)) = (&r, &o, &a, &rc, &bx, &de) {
            let strs = [r.as_str(), o.as_str(), a.as_str(), rc.as_str(), bx.as_str(), de.as_str()];
            let ser = serde_json::to_value(o).ok();
            if strs.iter().any(|x| *x != s) || ser != Some(json!(s)) || r.to_string() != s {
                fail($f_forms, json!({"type": stringify!($borrowed), "input": s, "observed": "the forms do not all hold the input byte for byte", "as_str": strs, "serialized": ser}));
            }
        }
        r.ok()
    }};
}

pub fn run(_tier: &str) -> Report {
    let cands = candidates(_tier == "thorough");
    let (mut n, mut f_forms, mut f_parts, mut f_ctor, mut f_panic) = (0u64, vec![], vec![], vec![], vec![]);
    for s in &cands {
        n += 1;
        let res = std::panic::catch_unwind(|| {
            let (mut f_forms, mut f_parts, mut f_ctor) = (vec![], vec![], vec![]);
            if let Some(u) = forms!(UserId, OwnedUserId, s, &mut f_forms) {
                let re = format!("@{}:{}", u.localpart(), u.server_name());
                if re != *s {
                    fail(&mut f_parts, json!({"type": "UserId", "input": s, "recomposed": re}));
                }
                let _ = (u.validate_strict().is_ok(), u.validate_historical().is_ok(), u.is_historical());
                // a localpart that itself begins with '@' is documented as unsupported by this constructor (it is read as a
                // full user ID): then only "whatever it builds is accepted by the parser" is required
                match UserId::parse_with_server_name(u.localpart(), u.server_name()) {
                    Ok(c) if c.as_str() == s => {}
                    Ok(c) if u.localpart().starts_with('@') && <&UserId>::try_from(c.as_str()).is_ok() => {}
                    Err(_) if u.localpart().starts_with('@') => {}
                    other => fail(&mut f_ctor, json!({"ctor": "UserId::parse_with_server_name(localpart, server)", "input": s, "observed": format!("{other:?}")})),
                }
                match UserId::parse_with_server_name(s.as_str(), u.server_name()) {
                    Ok(c) if c.as_str() == s => {}
                    other => fail(&mut f_ctor, json!({"ctor": "UserId::parse_with_server_name(full id, server)", "input": s, "observed": format!("{other:?}")})),
                }
            }
            if let Some(r) = forms!(RoomId, OwnedRoomId, s, &mut f_forms) {
                let sn = r.server_name().map(|x| x.as_str().to_owned());
                // the server part, when there is one, is the text after the first ':'
                let want = s.split_once(':').map(|x| x.1.to_owned()).filter(|x| <&ServerName>::try_from(x.as_str()).is_ok());
                if sn != want {
                    fail(&mut f_parts, json!({"type": "RoomId", "input": s, "server_name": sn, "expected": want}));
                }
            }
            if let Some(a) = forms!(RoomAliasId, OwnedRoomAliasId, s, &mut f_forms) {
                let re = format!("#{}:{}", a.alias(), a.server_name());
                if re != *s {
                    fail(&mut f_parts, json!({"type": "RoomAliasId", "input": s, "recomposed": re}));
                }
            }
            if let Some(x) = forms!(RoomOrAliasId, OwnedRoomOrAliasId, s, &mut f_forms) {
                if x.is_room_id() == x.is_room_alias_id() || x.is_room_id() != s.starts_with('!') {
                    fail(&mut f_parts, json!({"type": "RoomOrAliasId", "input": s, "is_room_id": x.is_room_id(), "is_room_alias_id": x.is_room_alias_id()}));
                }
                let _ = x.server_name();
            }
            if let Some(e) = forms!(EventId, OwnedEventId, s, &mut f_forms) {
                let re = match e.server_name() {
                    Some(sn) => format!("${}:{}", e.localpart(), sn),
                    None => format!("${}", e.localpart()),
                };
                if re != *s {
                    fail(&mut f_parts, json!({"type": "EventId", "input": s, "recomposed": re}));
                }
            }
            if let Some(sn) = forms!(ServerName, OwnedServerName, s, &mut f_forms) {
                let re = match sn.port() {
                    Some(_) => format!("{}:{}", sn.host(), &s[sn.host().len() + 1..]),
                    None => sn.host().to_owned(),
                };
                let port_txt = s.get(sn.host().len() + 1..).unwrap_or("");
                let port_ok = match sn.port() {
                    Some(p) => port_txt.parse::<u16>() == Ok(p),
                    None => port_txt.is_empty() || port_txt.parse::<u16>().is_err(),
                };
                if re != *s || !port_ok || sn.is_ip_literal() != (s.starts_with('[') || sn.host().parse::<std::net::Ipv4Addr>().is_ok()) {
                    fail(&mut f_parts, json!({"type": "ServerName", "input": s, "host": sn.host(), "port": sn.port(), "is_ip_literal": sn.is_ip_literal()}));
                }
            }
            {
                // MxcUri is infallible to construct; parts() validates
                let m = <&MxcUri>::from(s.as_str());
                if m.as_str() != s {
                    fail(&mut f_forms, json!({"type": "MxcUri", "input": s, "as_str": m.as_str()}));
                }
                match m.parts() {
                    Ok((sn, media)) => {
                        let re = format!("mxc://{sn}/{media}");
                        if re != *s || !m.is_valid() || m.media_id().ok() != Some(media) || m.server_name().ok().map(|x| x.as_str()) != Some(sn.as_str()) {
                            fail(&mut f_parts, json!({"type": "MxcUri", "input": s, "recomposed": re}));
                        }
                    }
                    Err(_) => {
                        if m.is_valid() || m.validate().is_ok() {
                            fail(&mut f_parts, json!({"type": "MxcUri", "input": s, "observed": "parts() fails but is_valid()/validate() accept"}));
                        }
                    }
                }
            }
            // key identifiers `<algorithm>:<key name>`: accepted exactly when the first ':' is at byte 1..=255 and the text after
            // it is a valid key name of the type; the accessors split at that same ':'
            {
                let first = s.find(':').filter(|i| (1..=255).contains(i));
                let name = first.map(|i| &s[i + 1..]);
                let version_ok = |n: &str| !n.is_empty() && n.chars().all(|c| c.is_ascii_alphanumeric() || c == '_');
                let b64_ok = |n: &str| !n.is_empty() && n.chars().all(|c| c.is_ascii_alphanumeric() || matches!(c, '+' | '/' | '='));
                macro_rules! key_id {
                    ($t:ty, $label:literal, $name_ok:expr) => {{
                        let want = name.map($name_ok).unwrap_or(false);
                        let got = <&$t>::try_from(s.as_str());
                        let owned_ok = <ruma_common::OwnedKeyId<_, _>>::try_from(s.as_str()).map(|o: ruma_common::OwnedKeyId<_, _>| { let r: &$t = &o; r.as_str() == s }).unwrap_or(false);
                        if got.is_ok() != want || owned_ok != want {
                            fail(&mut f_forms, json!({"type": $label, "input": s, "accepted": got.is_ok(), "owned_form_accepted": owned_ok, "in_the_documented_set": want}));
                        }
                        if let Ok(k) = got {
                            let i = first.unwrap_or(0);
                            if k.algorithm().as_ref() != &s[..i] || k.key_name().as_str() != &s[i + 1..] || k.as_str() != s {
                                fail(&mut f_parts, json!({"type": $label, "input": s, "algorithm": k.algorithm().as_ref(), "key_name": k.key_name().as_str()}));
                            }
                        }
                    }};
                }
                key_id!(ruma_common::ServerSigningKeyId, "ServerSigningKeyId", version_ok);
                key_id!(ruma_common::CrossSigningKeyId, "CrossSigningKeyId", b64_ok);
                key_id!(ruma_common::DeviceSigningKeyId, "DeviceSigningKeyId", |_n: &str| true);
                key_id!(ruma_common::OneTimeKeyId, "OneTimeKeyId", |_n: &str| true);
                key_id!(DeviceKeyId, "DeviceKeyId", |_n: &str| true);
            }
            if let Ok(k) = <&DeviceKeyId>::try_from(s.as_str()) {
                let re = format!("{}:{}", k.algorithm(), k.key_name());
                if re != *s || k.as_str() != s {
                    fail(&mut f_parts, json!({"type": "DeviceKeyId", "input": s, "recomposed": re}));
                }
                let c = DeviceKeyId::from_parts(k.algorithm(), k.key_name());
                if c.as_str() != s || <&DeviceKeyId>::try_from(c.as_str()).is_err() {
                    fail(&mut f_ctor, json!({"ctor": "DeviceKeyId::from_parts", "input": s, "observed": c.as_str()}));
                }
            }
            (f_forms, f_parts, f_ctor)
        });
        match res {
            Err(_) => fail(&mut f_panic, json!({"input": s, "observed": "panic while parsing / in an accessor"})),
            Ok((a, b, c)) => {
                for x in a {
                    fail(&mut f_forms, x);
                }
                for x in b {
                    fail(&mut f_parts, x);
                }
                for x in c {
                    fail(&mut f_ctor, x);
                }
            }
        }
    }
    // ---- constructors at the length limit, the compile-time-checked constructors, and strings the statement excludes by name
    let mut f_grammar = vec![];
    {
        let server = <&ServerName>::try_from("s.org").unwrap();
        for len in [1usize, 100, 200, 240, 248, 249, 250, 251, 255, 300, 1000] {
            n += 1;
            let local = "a".repeat(len);
            let full = format!("@{local}:s.org");
            let parser_accepts = <&UserId>::try_from(full.as_str()).is_ok();
            let built: Vec<(&str, Option<String>)> = vec![
                ("UserId::parse_with_server_name", UserId::parse_with_server_name(local.as_str(), server).ok().map(|u| u.as_str().to_owned())),
                ("UserId::parse_with_server_name_rc", UserId::parse_with_server_name_rc(local.as_str(), server).ok().map(|u| u.as_str().to_owned())),
                ("UserId::parse_with_server_name_arc", UserId::parse_with_server_name_arc(local.as_str(), server).ok().map(|u| u.as_str().to_owned())),
            ];
            for (ctor, got) in built {
                match got {
                    Some(id) if <&UserId>::try_from(id.as_str()).is_err() => {
                        fail(&mut f_ctor, json!({"ctor": ctor, "input": format!("a localpart of {len} bytes and the server name s.org"), "observed": format!("builds an identifier of {} bytes that the parser rejects", id.len())}))
                    }
                    None if parser_accepts => fail(&mut f_ctor, json!({"ctor": ctor, "input": format!("a localpart of {len} bytes and the server name s.org"), "observed": "refused although the parser accepts the identifier"})),
                    _ => {}
                }
            }
        }
        // base64_public_key! / owned_base64_public_key!: checked at compile time, must give the parsed key at run time
        n += 1;
        let r = std::panic::catch_unwind(|| {
            let k = ruma_common::base64_public_key!("YWJj");
            let o = ruma_common::owned_base64_public_key!("YWJj");
            k.as_str() == "YWJj" && o.as_str() == "YWJj" && <&ruma_common::Base64PublicKey>::try_from("YWJj").map(|p| p.as_str() == k.as_str()).unwrap_or(false)
        });
        if !matches!(r, Ok(true)) {
            fail(&mut f_ctor, json!({"ctor": "base64_public_key!(\"YWJj\") / owned_base64_public_key!(\"YWJj\")", "observed": format!("{:?}", r.map_err(|_| "panic"))}));
        }
        // constructors that cannot refuse their arguments (they do not return a Result)
        for (alg, name) in [("ed25519", "DEV"), ("a:b", "DEV"), ("", "DEV")] {
            n += 1;
            let r = std::panic::catch_unwind(|| {
                let dev: &ruma_common::DeviceId = name.into();
                let k = DeviceKeyId::from_parts(ruma_common::DeviceKeyAlgorithm::from(alg), dev);
                let parsed = <&DeviceKeyId>::try_from(k.as_str()).map(|p| (p.algorithm().as_ref().to_owned(), p.key_name().as_str().to_owned()));
                (k.as_str().to_owned(), parsed.ok(), k.algorithm().as_ref().to_owned(), k.key_name().as_str().to_owned())
            });
            match r {
                Ok((_, Some((pa, pn)), a, nm)) if pa == alg && pn == name && a == alg && nm == name => {}
                other => fail(&mut f_ctor, json!({"ctor": "DeviceKeyId::from_parts", "input": format!("algorithm {alg:?}, key name {name:?}"), "observed": format!("{:?}", other.map_err(|_| "panic"))})),
            }
        }
        for bytes in [&b"abc"[..], &b""[..]] {
            n += 1;
            let r = std::panic::catch_unwind(|| {
                let k = ruma_common::OwnedBase64PublicKey::with_bytes(bytes);
                <&ruma_common::Base64PublicKey>::try_from(k.as_str()).is_ok()
            });
            if !matches!(r, Ok(true)) {
                fail(&mut f_ctor, json!({"ctor": "OwnedBase64PublicKey::with_bytes", "input": format!("{} bytes", bytes.len()), "observed": format!("{:?}", r.map_err(|_| "panic"))}));
            }
        }
        // "no NUL or colon in localparts"; an MXC URI has a non-empty media ID
        for (ty, text) in [("EventId", "$a\0b:s.org"), ("EventId", "$a\0b"), ("EventId", "$\0"), ("UserId", "@a\0b:s.org"), ("RoomAliasId", "#a\0b:s.org"), ("RoomId", "!a\0b:s.org"), ("RoomId", "!a\0b")] {
            n += 1;
            let accepted = match ty {
                "EventId" => <&EventId>::try_from(text).is_ok() || OwnedEventId::try_from(text).is_ok() || serde_json::from_value::<OwnedEventId>(json!(text)).is_ok(),
                "UserId" => <&UserId>::try_from(text).is_ok(),
                "RoomAliasId" => <&RoomAliasId>::try_from(text).is_ok(),
                _ => <&RoomId>::try_from(text).is_ok(),
            };
            if accepted {
                fail(&mut f_grammar, json!({"type": ty, "input": text, "observed": "an identifier containing NUL is accepted"}));
            }
        }
        for text in ["mxc://s.org/", "mxc://s.org:80/", "mxc://1.2.3.4/"] {
            n += 1;
            let m = <&MxcUri>::from(text);
            if m.is_valid() || m.validate().is_ok() || m.parts().is_ok() || m.media_id().is_ok() {
                fail(&mut f_grammar, json!({"type": "MxcUri", "input": text, "observed": "an MXC URI with an empty media ID is accepted"}));
            }
        }
        for text in ["mxc://s.org/a", "mxc://s.org/A-b_9"] {
            n += 1;
            if !<&MxcUri>::from(text).is_valid() {
                fail(&mut f_grammar, json!({"type": "MxcUri", "input": text, "observed": "a valid MXC URI is rejected"}));
            }
        }
    }
    Report {
        bound: format!("{} candidate strings (5 sigils x 9 localparts x 13 hosts x 10 ports - thorough tier: 21 x 30 x 20 -, mxc and key id shapes, 253..256-byte boundaries) x 12 identifier types (incl. 5 key identifier types); parse_with_server_name with localparts of 1..1000 bytes; the base64_public_key! macros; 7 identifiers with NUL and 3 MXC URIs without media ID", cands.len()),
        cases: n,
        obligations: vec![
            ("borrowed_owned_shared_and_serde_forms_agree_and_store_the_input", n, f_forms),
            ("accessors_recompose_to_the_original_string", n, f_parts),
            ("constructed_identifiers_are_accepted_by_the_parser", n, f_ctor),
            ("identifier_types_never_panic", n, f_panic),
            ("identifiers_with_nul_and_mxc_uris_without_media_id_are_rejected", n, f_grammar),
        ],
    }
}
