//! C08 bounded stand-in and witness source: the real `ruma_state_res::auth_check` against an executable reading of
//! the Matrix authorization rules (the same rules as the spec functions of units/auth.vrs), over the finite
//! abstraction the property names: sender/target roles, every membership, every join rule incl. unknown ones,
//! power levels below/at/above every threshold, present/absent power-level fields, integer vs string levels,
//! federated or not - for the seven distinct AuthorizationRules constants (room versions 1-11).
//!
//! The oracle works on an abstract model (`St`, `Ev`); the same model is rendered to PDUs with JSON contents for the
//! real code. Third-party-invite member events (signature checking) are not generated.
use std::collections::{BTreeSet, HashMap};

use ruma_common::{
    room_version_rules::AuthorizationRules, MilliSecondsSinceUnixEpoch, OwnedEventId, OwnedRoomId, OwnedUserId, RoomId, UserId,
};
use ruma_events::{StateEventType, TimelineEventType};
use ruma_state_res::{auth_check, auth_types_for_event, Event};
use serde_json::{json, value::RawValue as RawJsonValue, Map, Value};

use super::Report;

// ------------------------------------------------------------------------------------------------ PDU
#[derive(Clone, Debug)]
pub(super) struct Pdu {
    pub(super) event_id: OwnedEventId,
    room_id: OwnedRoomId,
    sender: OwnedUserId,
    pub(super) event_type: TimelineEventType,
    pub(super) state_key: Option<String>,
    content: Box<RawJsonValue>,
    prev_events: Vec<OwnedEventId>,
    pub(super) auth_events: Vec<OwnedEventId>,
    redacts: Option<OwnedEventId>,
    ts: u64,
}

impl Event for Pdu {
    type Id = OwnedEventId;
    fn event_id(&self) -> &Self::Id {
        &self.event_id
    }
    fn room_id(&self) -> &RoomId {
        &self.room_id
    }
    fn sender(&self) -> &UserId {
        &self.sender
    }
    fn origin_server_ts(&self) -> MilliSecondsSinceUnixEpoch {
        MilliSecondsSinceUnixEpoch(js_int::UInt::try_from(self.ts).unwrap())
    }
    fn event_type(&self) -> &TimelineEventType {
        &self.event_type
    }
    fn content(&self) -> &RawJsonValue {
        &self.content
    }
    fn state_key(&self) -> Option<&str> {
        self.state_key.as_deref()
    }
    fn prev_events(&self) -> Box<dyn DoubleEndedIterator<Item = &Self::Id> + '_> {
        Box::new(self.prev_events.iter())
    }
    fn auth_events(&self) -> Box<dyn DoubleEndedIterator<Item = &Self::Id> + '_> {
        Box::new(self.auth_events.iter())
    }
    fn redacts(&self) -> Option<&Self::Id> {
        self.redacts.as_ref()
    }
}

// ------------------------------------------------------------------------------------------------ model
/// a power level as written in the content
#[derive(Clone, Debug, PartialEq)]
pub(super) enum Lv {
    Int(i64),
    /// a string holding an integer: accepted before room version 10 only
    Str(i64),
    /// neither
    Bad,
}
impl Lv {
    fn json(&self) -> Value {
        match self {
            Lv::Int(i) => json!(i),
            Lv::Str(i) => json!(i.to_string()),
            Lv::Bad => json!("x"),
        }
    }
    fn get(&self, rules: &AuthorizationRules) -> Result<i64, ()> {
        match self {
            Lv::Int(i) => Ok(*i),
            Lv::Str(i) if !rules.integer_power_levels => Ok(*i),
            _ => Err(()),
        }
    }
}

#[derive(Clone, Debug, Default)]
pub(super) struct Pl {
    pub(super) users: Vec<(String, Lv)>,
    pub(super) events: Vec<(String, Lv)>,
    notifications: Vec<(String, Lv)>,
    users_default: Option<Lv>,
    events_default: Option<Lv>,
    state_default: Option<Lv>,
    ban: Option<Lv>,
    kick: Option<Lv>,
    invite: Option<Lv>,
    redact: Option<Lv>,
}
const FIELDS: [&str; 7] = ["users_default", "events_default", "state_default", "ban", "redact", "kick", "invite"];
impl Pl {
    fn field(&self, f: &str) -> &Option<Lv> {
        match f {
            "users_default" => &self.users_default,
            "events_default" => &self.events_default,
            "state_default" => &self.state_default,
            "ban" => &self.ban,
            "kick" => &self.kick,
            "invite" => &self.invite,
            _ => &self.redact,
        }
    }
    pub(super) fn json(&self) -> Value {
        let mut m = Map::new();
        let map = |v: &Vec<(String, Lv)>| Value::Object(v.iter().map(|(k, l)| (k.clone(), l.json())).collect());
        if !self.users.is_empty() {
            m.insert("users".into(), map(&self.users));
        }
        if !self.events.is_empty() {
            m.insert("events".into(), map(&self.events));
        }
        if !self.notifications.is_empty() {
            m.insert("notifications".into(), map(&self.notifications));
        }
        for f in FIELDS {
            if let Some(l) = self.field(f) {
                m.insert(f.into(), l.json());
            }
        }
        Value::Object(m)
    }
    fn default_of(f: &str) -> i64 {
        match f {
            "users_default" | "events_default" | "invite" => 0,
            _ => 50,
        }
    }
    /// Ok(None) = absent
    fn get_int(&self, f: &str, rules: &AuthorizationRules) -> Result<Option<i64>, ()> {
        match self.field(f) {
            None => Ok(None),
            Some(l) => l.get(rules).map(Some),
        }
    }
    fn int_or_default(&self, f: &str, rules: &AuthorizationRules) -> Result<i64, ()> {
        Ok(self.get_int(f, rules)?.unwrap_or(Self::default_of(f)))
    }
    /// a map is malformed as a whole if any value is
    fn map(v: &Vec<(String, Lv)>, rules: &AuthorizationRules) -> Result<HashMap<String, i64>, ()> {
        v.iter().map(|(k, l)| l.get(rules).map(|i| (k.clone(), i))).collect()
    }
}

#[derive(Clone, Debug)]
pub(super) struct St {
    /// (sender of m.room.create, `creator` field present, m.federate: None absent / Some(Ok(b)) / Some(Err) malformed)
    pub(super) create: Option<(String, bool, Option<Result<bool, ()>>)>,
    pub(super) pl: Option<Pl>,
    pub(super) join_rule: Option<String>,
    pub(super) members: Vec<(String, String)>,
}

#[derive(Clone, Debug)]
pub(super) struct Ev {
    pub(super) ty: String,
    pub(super) sender: String,
    pub(super) state_key: Option<String>,
    pub(super) content: Value,
    pub(super) prev_events: Vec<String>,
    pub(super) auth_events: Vec<String>,
    pub(super) redacts: Option<String>,
    pub(super) room_id: String,
    /// for m.room.power_levels events: the model of the new content
    pub(super) new_pl: Option<Pl>,
}

fn server(id: &str) -> &str {
    id.split_once(':').map(|x| x.1).unwrap_or("")
}

// ------------------------------------------------------------------------------------------------ oracle
pub(super) struct O<'a> {
    pub(super) rules: &'a AuthorizationRules,
    pub(super) st: &'a St,
}
impl O<'_> {
    fn membership(&self, u: &str) -> String {
        self.st.members.iter().find(|(k, _)| k == u).map(|(_, m)| m.clone()).unwrap_or_else(|| "leave".into())
    }
    fn creator(&self) -> Result<String, ()> {
        let (sender, has_creator, _) = self.st.create.as_ref().ok_or(())?;
        if self.rules.use_room_create_sender {
            Ok(sender.clone())
        } else if *has_creator {
            Ok(sender.clone()) // the generator writes creator = sender
        } else {
            Err(())
        }
    }
    pub(super) fn user_level(&self, u: &str) -> Result<i64, ()> {
        match &self.st.pl {
            None => Ok(if self.creator()? == u { 100 } else { 0 }),
            Some(pl) => {
                let users = Pl::map(&pl.users, self.rules)?;
                match users.get(u) {
                    Some(l) => Ok(*l),
                    None => pl.int_or_default("users_default", self.rules),
                }
            }
        }
    }
    fn field_level(&self, f: &str) -> Result<i64, ()> {
        match &self.st.pl {
            None => Ok(Pl::default_of(f)),
            Some(pl) => pl.int_or_default(f, self.rules),
        }
    }
    fn event_level(&self, ty: &str, is_state: bool) -> Result<i64, ()> {
        match &self.st.pl {
            None => Ok(if is_state { 50 } else { 0 }),
            Some(pl) => {
                let events = Pl::map(&pl.events, self.rules)?;
                match events.get(ty) {
                    Some(l) => Ok(*l),
                    None => pl.int_or_default(if is_state { "state_default" } else { "events_default" }, self.rules),
                }
            }
        }
    }

    pub(super) fn auth(&self, ev: &Ev) -> bool {
        self.auth_r(ev).unwrap_or(false)
    }
    /// Err = a needed part of the state / event is malformed: reject
    fn auth_r(&self, ev: &Ev) -> Result<bool, ()> {
        let rules = self.rules;
        if ev.ty == "m.room.create" {
            return Ok(ev.prev_events.is_empty()
                && server(&ev.room_id) == server(&ev.sender)
                && !server(&ev.room_id).is_empty()
                && (rules.use_room_create_sender || ev.content.get("creator").is_some()));
        }
        let Some((create_sender, _, fed)) = &self.st.create else { return Ok(false) };
        if !ev.auth_events.iter().any(|e| e == "$create") {
            return Ok(false);
        }
        let federate = match fed {
            None => true,
            Some(Ok(b)) => *b,
            Some(Err(())) => return Err(()),
        };
        if !federate && server(create_sender) != server(&ev.sender) {
            return Ok(false);
        }
        if rules.special_case_room_aliases && ev.ty == "m.room.aliases" {
            return Ok(ev.state_key.as_deref() == Some(server(&ev.sender)));
        }
        if ev.ty == "m.room.member" {
            return self.member(ev);
        }
        if self.membership(&ev.sender) != "join" {
            return Ok(false);
        }
        let lvl = self.user_level(&ev.sender)?;
        if ev.ty == "m.room.third_party_invite" {
            return Ok(lvl >= self.field_level("invite")?);
        }
        if lvl < self.event_level(&ev.ty, ev.state_key.is_some())? {
            return Ok(false);
        }
        if let Some(k) = &ev.state_key {
            if k.starts_with('@') && *k != ev.sender {
                return Ok(false);
            }
        }
        if ev.ty == "m.room.power_levels" {
            return self.power_levels(ev, lvl);
        }
        if rules.special_case_room_redaction && ev.ty == "m.room.redaction" {
            let redact = self.field_level("redact")?;
            // servers of the two event ids ("$x:server"; ids without a server part have none)
            let s1 = "$in:s".split_once(':').map(|x| x.1);
            let s2 = ev.redacts.as_deref().and_then(|r| r.split_once(':').map(|x| x.1));
            return Ok(lvl >= redact || s1 == s2);
        }
        Ok(true)
    }

    fn member(&self, ev: &Ev) -> Result<bool, ()> {
        let rules = self.rules;
        let Some(target) = ev.state_key.clone() else { return Ok(false) };
        if !(target.starts_with('@') && target.contains(':')) {
            return Ok(false);
        }
        let Some(membership) = ev.content.get("membership").and_then(|m| m.as_str()) else { return Err(()) };
        let sender = &ev.sender;
        match membership {
            "join" => {
                let c = self.creator()?;
                if ev.prev_events.len() == 1 && ev.prev_events[0] == "$create" && target == c {
                    return Ok(true);
                }
                if *sender != target {
                    return Ok(false);
                }
                let m = self.membership(&target);
                if m == "ban" {
                    return Ok(false);
                }
                let Some(jr) = &self.st.join_rule else { return Err(()) };
                let invited_or_joined = m == "invite" || m == "join";
                let restricted =
                    (rules.restricted_join_rule && jr == "restricted") || (rules.knock_restricted_join_rule && jr == "knock_restricted");
                if (jr == "invite" || (rules.knocking && jr == "knock")) && invited_or_joined {
                    return Ok(true);
                }
                if restricted {
                    if invited_or_joined {
                        return Ok(true);
                    }
                    let Some(a) = ev.content.get("join_authorised_via_users_server").and_then(|a| a.as_str()) else {
                        return Ok(false);
                    };
                    return Ok(self.membership(a) == "join" && self.user_level(a)? >= self.field_level("invite")?);
                }
                Ok(jr == "public")
            }
            "invite" => {
                if self.membership(sender) != "join" {
                    return Ok(false);
                }
                let mt = self.membership(&target);
                if mt == "join" || mt == "ban" {
                    return Ok(false);
                }
                Ok(self.user_level(sender)? >= self.field_level("invite")?)
            }
            "leave" => {
                if *sender == target {
                    let m = self.membership(sender);
                    return Ok(m == "join" || m == "invite" || (rules.knocking && m == "knock"));
                }
                if self.membership(sender) != "join" {
                    return Ok(false);
                }
                let s = self.user_level(sender)?;
                if self.membership(&target) == "ban" && s < self.field_level("ban")? {
                    return Ok(false);
                }
                Ok(s >= self.field_level("kick")? && self.user_level(&target)? < s)
            }
            "ban" => {
                if self.membership(sender) != "join" {
                    return Ok(false);
                }
                let s = self.user_level(sender)?;
                Ok(s >= self.field_level("ban")? && self.user_level(&target)? < s)
            }
            "knock" => {
                if !rules.knocking {
                    return Ok(false);
                }
                let Some(jr) = &self.st.join_rule else { return Err(()) };
                if !(jr == "knock" || (rules.knock_restricted_join_rule && jr == "knock_restricted")) {
                    return Ok(false);
                }
                if *sender != target {
                    return Ok(false);
                }
                let m = self.membership(sender);
                Ok(m != "ban" && m != "invite" && m != "join")
            }
            _ => Ok(false),
        }
    }

    fn power_levels(&self, ev: &Ev, spl: i64) -> Result<bool, ()> {
        let rules = self.rules;
        let new = ev.new_pl.as_ref().ok_or(())?;
        // the new content must be well-formed for this room version
        for f in FIELDS {
            new.get_int(f, rules)?;
        }
        let new_events = Pl::map(&new.events, rules)?;
        let new_notifications = Pl::map(&new.notifications, rules)?;
        let new_users = Pl::map(&new.users, rules)?;
        let Some(cur) = &self.st.pl else { return Ok(true) };
        for f in FIELDS {
            let c = cur.get_int(f, rules)?;
            let n = new.get_int(f, rules)?;
            if c == n {
                continue;
            }
            if c.unwrap_or(Pl::default_of(f)) > spl || n.unwrap_or(Pl::default_of(f)) > spl {
                return Ok(false);
            }
        }
        let check = |cur: &HashMap<String, i64>, new: &HashMap<String, i64>, users: bool| -> bool {
            let mut keys: Vec<&String> = cur.keys().chain(new.keys()).collect();
            keys.sort();
            keys.dedup();
            for k in keys {
                let (c, n) = (cur.get(k), new.get(k));
                if c == n {
                    continue;
                }
                if let Some(c) = c {
                    let blocked = if users { *k != ev.sender && *c >= spl } else { *c > spl };
                    if blocked {
                        return false;
                    }
                }
                if let Some(n) = n {
                    if *n > spl {
                        return false;
                    }
                }
            }
            true
        };
        if !check(&Pl::map(&cur.events, rules)?, &new_events, false) {
            return Ok(false);
        }
        if rules.limit_notifications_power_levels && !check(&Pl::map(&cur.notifications, rules)?, &new_notifications, false) {
            return Ok(false);
        }
        Ok(check(&Pl::map(&cur.users, rules)?, &new_users, true))
    }
}

// ------------------------------------------------------------------------------------------------ rendering
#[allow(clippy::too_many_arguments)]
pub(super) fn pdu_ts(id: &str, sender: &str, ty: &str, state_key: Option<&str>, content: &Value, prev: &[String], auth: &[String], room: &str, ts: u64) -> Pdu {
    let mut p = pdu(id, sender, ty, state_key, content, prev, auth, None, room);
    p.ts = ts;
    p
}

pub(super) fn pdu(id: &str, sender: &str, ty: &str, state_key: Option<&str>, content: &Value, prev: &[String], auth: &[String], redacts: Option<&str>, room: &str) -> Pdu {
    Pdu {
        event_id: OwnedEventId::try_from(id).unwrap(),
        room_id: OwnedRoomId::try_from(room).unwrap(),
        sender: OwnedUserId::try_from(sender).unwrap(),
        event_type: TimelineEventType::from(ty),
        state_key: state_key.map(|s| s.to_owned()),
        content: serde_json::value::to_raw_value(content).unwrap(),
        prev_events: prev.iter().map(|e| OwnedEventId::try_from(e.as_str()).unwrap()).collect(),
        auth_events: auth.iter().map(|e| OwnedEventId::try_from(e.as_str()).unwrap()).collect(),
        redacts: redacts.map(|r| OwnedEventId::try_from(r).unwrap()),
        ts: 0,
    }
}

fn render_state(st: &St) -> HashMap<(StateEventType, String), Pdu> {
    let mut m = HashMap::new();
    let none: [String; 0] = [];
    if let Some((sender, has_creator, fed)) = &st.create {
        let mut c = Map::new();
        if *has_creator {
            c.insert("creator".into(), json!(sender));
        }
        match fed {
            None => {}
            Some(Ok(b)) => {
                c.insert("m.federate".into(), json!(b));
            }
            Some(Err(())) => {
                c.insert("m.federate".into(), json!("yes"));
            }
        }
        m.insert((StateEventType::RoomCreate, String::new()), pdu("$create", sender, "m.room.create", Some(""), &Value::Object(c), &none, &none, None, "!r:s"));
    }
    if let Some(pl) = &st.pl {
        m.insert((StateEventType::RoomPowerLevels, String::new()), pdu("$pl", "@a:s", "m.room.power_levels", Some(""), &pl.json(), &none, &none, None, "!r:s"));
    }
    if let Some(jr) = &st.join_rule {
        m.insert((StateEventType::RoomJoinRules, String::new()), pdu("$jr", "@a:s", "m.room.join_rules", Some(""), &json!({"join_rule": jr}), &none, &none, None, "!r:s"));
    }
    for (u, ms) in &st.members {
        m.insert(
            (StateEventType::RoomMember, u.clone()),
            pdu(&format!("$m{}", u.len()), u, "m.room.member", Some(u), &json!({"membership": ms}), &none, &none, None, "!r:s"),
        );
    }
    m
}

fn real(rules: &AuthorizationRules, st: &HashMap<(StateEventType, String), Pdu>, ev: &Ev) -> Result<bool, String> {
    let p = pdu("$in:s", &ev.sender, &ev.ty, ev.state_key.as_deref(), &ev.content, &ev.prev_events, &ev.auth_events, ev.redacts.as_deref(), &ev.room_id);
    std::panic::catch_unwind(std::panic::AssertUnwindSafe(|| {
        auth_check(rules, p, |ty: &StateEventType, key: &str| st.get(&(ty.clone(), key.to_owned())).cloned()).is_ok()
    }))
    .map_err(|_| "panic".to_owned())
}

// ------------------------------------------------------------------------------------------------ enumeration
struct Acc {
    n: u64,
    accepted: u64,
    fsel: Vec<Value>,
    f: Vec<Value>,
    fp: Vec<Value>,
    /// helpers on state types that have authorization rules of their own
    fded: Vec<Value>,
    /// event types that the event type enums fold into another spelling
    falias: Vec<Value>,
    /// RoomPowerLevels::max against the largest level of the content
    fmax: Vec<Value>,
}
impl Acc {
    fn check(&mut self, vname: &str, rules: &AuthorizationRules, st: &St, rst: &HashMap<(StateEventType, String), Pdu>, ev: &Ev) {
        self.n += 1;
        let want = O { rules, st }.auth(ev);
        if want {
            self.accepted += 1;
        }
        let got = match real(rules, rst, ev) {
            Err(_) => {
                if self.fp.len() < 20 {
                    self.fp.push(describe(vname, st, ev, json!("panic"), want));
                }
                return;
            }
            Ok(got) => got,
        };
        if got != want && self.f.len() < 25 {
            self.f.push(describe(vname, st, ev, json!(got), want));
        }
        // C09 (whatever the rules say about the event): the decision depends only on the state entries named by auth_types_for_event
        let content = serde_json::value::to_raw_value(&ev.content).unwrap();
        let sender = OwnedUserId::try_from(ev.sender.as_str()).unwrap();
        if let Ok(sel) = auth_types_for_event(&TimelineEventType::from(ev.ty.as_str()), &sender, ev.state_key.as_deref(), &content, rules) {
            let restricted: HashMap<(StateEventType, String), Pdu> = rst.iter().filter(|(k, _)| sel.contains(k)).map(|(k, v)| (k.clone(), v.clone())).collect();
            if restricted.len() != rst.len() {
                if let Ok(got2) = real(rules, &restricted, ev) {
                    if got2 != got && self.fsel.len() < 25 {
                        let mut d = describe(vname, st, ev, json!(got), want);
                        d["selected"] = json!(sel.iter().map(|(t, k)| format!("({t}, {k:?})")).collect::<Vec<_>>());
                        d["auth_check_over_selected_entries_only"] = json!(got2);
                        self.fsel.push(d);
                    }
                }
            }
        }
    }
}

fn describe(vname: &str, st: &St, ev: &Ev, got: Value, want: bool) -> Value {
    json!({
        "rules": vname,
        "state": {
            "create": st.create.as_ref().map(|(s, c, f)| json!({"sender": s, "has_creator_field": c, "m.federate": format!("{f:?}")})),
            "power_levels": st.pl.as_ref().map(|p| p.json()),
            "join_rule": st.join_rule,
            "members": st.members,
        },
        "event": {"type": ev.ty, "sender": ev.sender, "state_key": ev.state_key, "content": ev.content, "prev_events": ev.prev_events,
                  "auth_events": ev.auth_events, "redacts": ev.redacts, "room_id": ev.room_id},
        "auth_check_accepts": got,
        "rules_accept": want,
    })
}

fn base_ev(ty: &str, sender: &str, state_key: Option<&str>, content: Value) -> Ev {
    Ev {
        ty: ty.into(),
        sender: sender.into(),
        state_key: state_key.map(|s| s.into()),
        content,
        prev_events: vec!["$p".into()],
        auth_events: vec!["$create".into(), "$pl".into()],
        redacts: None,
        room_id: "!r:s".into(),
        new_pl: None,
    }
}

const A: &str = "@a:s";
const B: &str = "@b:s";
const C: &str = "@c:s";
const MEMBERSHIPS: [&str; 6] = ["", "join", "invite", "leave", "ban", "knock"];

fn pl_with(levels: &[(&str, i64)], ban: Option<i64>, kick: Option<i64>, invite: Option<i64>) -> Pl {
    Pl {
        users: levels.iter().map(|(u, l)| (u.to_string(), Lv::Int(*l))).collect(),
        ban: ban.map(Lv::Int),
        kick: kick.map(Lv::Int),
        invite: invite.map(Lv::Int),
        ..Default::default()
    }
}

fn members(list: &[(&str, &str)]) -> Vec<(String, String)> {
    list.iter().filter(|(_, m)| !m.is_empty()).map(|(u, m)| (u.to_string(), m.to_string())).collect()
}

fn scenario_membership(vname: &str, rules: &AuthorizationRules, thorough: bool, acc: &mut Acc) {
    let join_rules: &[Option<&str>] = &[None, Some("public"), Some("invite"), Some("knock"), Some("restricted"), Some("knock_restricted"), Some("private")];
    let levels: &[i64] = &[0, 50, 100];
    // (power levels present?, ban, kick, invite thresholds)
    let mut pls: Vec<Option<(Option<i64>, Option<i64>, Option<i64>)>> =
        vec![None, Some((None, None, None)), Some((Some(100), Some(0), Some(50))), Some((Some(50), Some(100), Some(100))), Some((Some(0), Some(50), None))];
    if thorough {
        pls.push(Some((Some(51), Some(49), Some(51))));
        pls.push(Some((Some(100), Some(100), Some(0))));
    }
    for sender in [A, B] {
        for target in [A, B, C] {
            for ms in MEMBERSHIPS {
                for mt in MEMBERSHIPS {
                    if sender == target && mt != ms {
                        continue;
                    }
                    for plc in &pls {
                        for &ls in levels {
                            for &lt in levels {
                                if sender == target && lt != ls {
                                    continue;
                                }
                                if plc.is_none() && (ls != 0 || lt != 0) {
                                    continue;
                                }
                                let third = if sender != A && target != A { A } else if sender != B && target != B { B } else { C };
                                for m3 in ["join", "leave"] {
                                    let pl = plc.map(|(ban, kick, invite)| {
                                        let mut lv = vec![(sender, ls)];
                                        if target != sender {
                                            lv.push((target, lt));
                                        }
                                        lv.push((third, 50));
                                        pl_with(&lv, ban, kick, invite)
                                    });
                                    for jr in join_rules {
                                        let mut mem = vec![(sender, ms)];
                                        if target != sender {
                                            mem.push((target, mt));
                                        }
                                        mem.push((third, m3));
                                        let st = St {
                                            create: Some((A.into(), !rules.use_room_create_sender || ls == 50, None)),
                                            pl: pl.clone(),
                                            join_rule: jr.map(|s| s.to_string()),
                                            members: members(&mem),
                                        };
                                        let rst = render_state(&st);
                                        for membership in ["join", "invite", "leave", "ban", "knock", "x.custom"] {
                                            // join-rule and third-user dimensions only matter for join / knock
                                            if !matches!(membership, "join" | "knock") && (jr.is_some() && *jr != Some("public") || m3 != "join") {
                                                continue;
                                            }
                                            let vias: &[Option<&str>] = if membership == "join" { &[None, Some(third)] } else { &[None] };
                                            for via in vias {
                                                let prevs: &[&[&str]] = if membership == "join" { &[&["$p"], &["$create"], &[], &["$create", "$p"]] } else { &[&["$p"]] };
                                                for prev in prevs {
                                                    if membership == "join" && prev.len() != 1 && (via.is_some() || ls != 0) {
                                                        continue;
                                                    }
                                                    let mut content = json!({"membership": membership});
                                                    if let Some(v) = via {
                                                        content["join_authorised_via_users_server"] = json!(v);
                                                    }
                                                    let mut ev = base_ev("m.room.member", sender, Some(target), content);
                                                    ev.prev_events = prev.iter().map(|s| s.to_string()).collect();
                                                    acc.check(vname, rules, &st, &rst, &ev);
                                                }
                                            }
                                        }
                                    }
                                }
                            }
                        }
                    }
                }
            }
        }
    }
}

fn scenario_generic(vname: &str, rules: &AuthorizationRules, acc: &mut Acc) {
    // (type, state_key)
    let evs: &[(&str, Option<&str>)] = &[
        ("m.room.message", None),
        ("m.room.name", Some("")),
        ("m.room.third_party_invite", Some("tok")),
        ("m.room.aliases", Some("s")),
        ("m.room.aliases", Some("o")),
        ("m.room.aliases", None),
        ("x.state", Some("@b:s")),
        ("x.state", Some("@c:s")),
        ("x.state", Some("@")),
        ("m.room.redaction", None),
        ("m.room.join_rules", Some("")),
    ];
    let lv = |x: Option<i64>| x.map(Lv::Int);
    for &(ty, sk) in evs {
        for ms in MEMBERSHIPS {
            for pl_present in [false, true] {
                for ls in [0i64, 49, 50, 100] {
                    for entry in [None, Some(0i64), Some(50), Some(100)] {
                        for (sd, ed, inv, red) in [(None, None, None, None), (Some(100), Some(50), Some(50), Some(100)), (Some(0), Some(0), Some(100), Some(0))] {
                            if !pl_present && (ls != 0 || entry.is_some() || sd.is_some()) {
                                continue;
                            }
                            for sender in [B, A, "@x:o"] {
                                for (has_create, fed, in_auth) in [(true, None, true), (true, Some(Ok(false)), true), (true, Some(Ok(true)), true), (true, Some(Err(())), true), (true, None, false), (false, None, true)] {
                                    if sender == A && (fed.is_some() || !in_auth || !has_create) {
                                        continue;
                                    }
                                    for has_creator_field in [true, false] {
                                        if !has_creator_field && (pl_present || sender != A) {
                                            continue;
                                        }
                                        let pl = pl_present.then(|| Pl {
                                            users: vec![(sender.to_string(), Lv::Int(ls))],
                                            events: entry.map(|e| vec![(ty.to_string(), Lv::Int(e))]).unwrap_or_default(),
                                            state_default: lv(sd),
                                            events_default: lv(ed),
                                            invite: lv(inv),
                                            redact: lv(red),
                                            ..Default::default()
                                        });
                                        let st = St {
                                            create: has_create.then(|| (A.to_string(), has_creator_field, fed.clone())),
                                            pl,
                                            join_rule: Some("public".into()),
                                            members: members(&[(sender, ms)]),
                                        };
                                        let rst = render_state(&st);
                                        let redacts: &[Option<&str>] = if ty == "m.room.redaction" { &[Some("$x:s"), Some("$x:o"), Some("$noserver"), None] } else { &[None] };
                                        for r in redacts {
                                            let mut ev = base_ev(ty, sender, sk, json!({"join_rule": "invite"}));
                                            ev.redacts = r.map(|s| s.to_string());
                                            if !in_auth {
                                                ev.auth_events = vec!["$pl".into()];
                                            }
                                            acc.check(vname, rules, &st, &rst, &ev);
                                        }
                                    }
                                }
                            }
                        }
                    }
                }
            }
        }
    }
}

/// "required power for the event type": the level is the entry of `events` for the type of the event, as a string; two types
/// that the event type enums treat as spellings of one variant are different types to the rules
fn scenario_alias(vname: &str, rules: &AuthorizationRules, acc: &mut Acc) {
    let (stable, unstable) = ("m.call.sdp_stream_metadata_changed", "org.matrix.call.sdp_stream_metadata_changed");
    for (entry_ty, entry, ed, ls, sent) in [(unstable, 0i64, 50i64, 0i64, stable), (stable, 100, 0, 50, unstable), (stable, 0, 50, 0, unstable), (unstable, 100, 0, 50, stable), (stable, 100, 0, 50, stable), (unstable, 0, 50, 0, unstable)] {
        let pl = Pl { users: vec![(B.to_string(), Lv::Int(ls))], events: vec![(entry_ty.to_string(), Lv::Int(entry))], events_default: Some(Lv::Int(ed)), ..Default::default() };
        let st = St { create: Some((A.to_string(), true, None)), pl: Some(pl), join_rule: Some("public".into()), members: members(&[(B, "join"), (A, "join")]) };
        let rst = render_state(&st);
        let ev = base_ev(sent, B, None, json!({"call_id": "c", "party_id": "p", "version": "1", "sdp_stream_metadata": {}}));
        acc.n += 1;
        let want = O { rules, st: &st }.auth(&ev);
        if want {
            acc.accepted += 1;
        }
        match real(rules, &rst, &ev) {
            Ok(got) if got == want => {}
            Ok(got) => acc.falias.push(describe(vname, &st, &ev, json!(got), want)),
            Err(_) => acc.fp.push(describe(vname, &st, &ev, json!("panic"), want)),
        }
    }
}

fn scenario_create(vname: &str, rules: &AuthorizationRules, acc: &mut Acc) {
    // the decision for an m.room.create event depends on no state entry (its selection is empty): the same events over an
    // empty state and over states that already hold a create event, power levels and members
    let states = [
        St { create: None, pl: None, join_rule: None, members: vec![] },
        St { create: Some((B.into(), true, None)), pl: None, join_rule: None, members: vec![] },
        St { create: Some((A.into(), true, None)), pl: Some(pl_with(&[(A, 0), (B, 100)], None, None, None)), join_rule: Some("invite".into()), members: members(&[(A, "ban"), (B, "join")]) },
    ];
    for st in &states {
        let rst = render_state(st);
        for room in ["!r:s", "!r:o", "!r"] {
            for prev in [vec![], vec!["$p".to_string()]] {
                for content in [json!({"creator": A}), json!({}), json!({"creator": B, "room_version": "1"})] {
                    let mut ev = base_ev("m.room.create", A, Some(""), content);
                    ev.room_id = room.into();
                    ev.prev_events = prev.clone();
                    ev.auth_events = vec![];
                    acc.check(vname, rules, st, &rst, &ev);
                }
            }
        }
    }
}

fn scenario_power_levels(vname: &str, rules: &AuthorizationRules, thorough: bool, acc: &mut Acc) {
    // the sender B is joined with level `spl`; the current event (or none) and the new content vary in one place each
    let spls: &[i64] = if thorough { &[0, 49, 50, 51, 100] } else { &[0, 50, 100] };
    let vals: &[Option<Lv>] = &[None, Some(Lv::Int(0)), Some(Lv::Int(50)), Some(Lv::Int(51)), Some(Lv::Int(100)), Some(Lv::Str(50)), Some(Lv::Bad)];
    let entry = |k: &str, v: &Option<Lv>| -> Vec<(String, Lv)> { v.iter().map(|l| (k.to_string(), l.clone())).collect() };
    for &spl in spls {
        let mk = |f: &dyn Fn(&mut Pl)| {
            let mut p = Pl { users: vec![(B.to_string(), Lv::Int(spl))], events: vec![("m.room.power_levels".to_string(), Lv::Int(0))], ..Default::default() };
            f(&mut p);
            p
        };
        let mut run = |cur: Option<Pl>, new: Pl| {
            let st = St { create: Some((A.into(), true, None)), pl: cur, join_rule: Some("public".into()), members: members(&[(B, "join"), (A, "join")]) };
            let rst = render_state(&st);
            let mut ev = base_ev("m.room.power_levels", B, Some(""), new.json());
            ev.new_pl = Some(new);
            acc.check(vname, rules, &st, &rst, &ev);
        };
        // no current power levels: only well-formedness of the new content matters (sender level comes from the defaults)
        for v in vals {
            run(None, mk(&|p| p.ban = v.clone()));
            run(None, mk(&|p| p.users.extend(entry(C, v))));
            run(None, mk(&|p| p.events.extend(entry("m.x", v))));
            run(None, mk(&|p| p.notifications = entry("room", v)));
        }
        for cv in vals {
            for nv in vals {
                for f in FIELDS {
                    let set = |p: &mut Pl, v: &Option<Lv>| match f {
                        "users_default" => p.users_default = v.clone(),
                        "events_default" => p.events_default = v.clone(),
                        "state_default" => p.state_default = v.clone(),
                        "ban" => p.ban = v.clone(),
                        "kick" => p.kick = v.clone(),
                        "invite" => p.invite = v.clone(),
                        _ => p.redact = v.clone(),
                    };
                    // users_default / events_default / state_default also move the sender's own standing: keep the entries
                    // that make B able to send the event in the first place (users[B], events[m.room.power_levels])
                    run(Some(mk(&|p| set(p, cv))), mk(&|p| set(p, nv)));
                }
                run(Some(mk(&|p| p.events.extend(entry("m.x", cv)))), mk(&|p| p.events.extend(entry("m.x", nv))));
                run(Some(mk(&|p| p.notifications = entry("room", cv))), mk(&|p| p.notifications = entry("room", nv)));
                run(Some(mk(&|p| p.users.extend(entry(C, cv)))), mk(&|p| p.users.extend(entry(C, nv))));
            }
            // the sender's own entry: may be lowered / removed at the sender's level, never raised above it
            for own in [None, Some(Lv::Int(0)), Some(Lv::Int(spl)), Some(Lv::Int(spl + 1))] {
                let newp = {
                    let mut p = Pl { events: vec![("m.room.power_levels".to_string(), Lv::Int(0))], ..Default::default() };
                    p.users = entry(B, &own);
                    p.users.extend(entry(C, cv));
                    p
                };
                run(Some(mk(&|p| p.users.extend(entry(C, cv)))), newp);
            }
        }
    }
}

/// Third-party invites (rule 4.3.1): an `invite` member event whose content carries `third_party_invite.signed`.
/// Allowed iff the target is not banned, `signed.mxid` is the target, the state has an m.room.third_party_invite event
/// under `signed.token` sent by the same sender, and some signature in `signed.signatures` verifies `signed` under one of
/// that event's public keys. Real Ed25519 keys and signatures are used.
fn scenario_tpi(vname: &str, rules: &AuthorizationRules, acc: &mut Acc) {
    use ruma_common::{serde::Base64, CanonicalJsonObject};
    use ruma_signatures::{sign_json, Ed25519KeyPair};
    let kp = |v: &str| Ed25519KeyPair::from_der(&Ed25519KeyPair::generate().unwrap(), v.to_owned()).unwrap();
    let good = kp("0");
    let other = kp("0");
    let pk = |k: &Ed25519KeyPair| Base64::<ruma_common::serde::base64::Standard, _>::new(k.public_key().to_vec()).encode();
    for target_membership in MEMBERSHIPS {
        for mxid in [C, B, "", "@c:o", "@c:s2"] {
            for (token_in_event, token_in_state) in [("tok", "tok"), ("tok", "other"), ("", "tok")] {
                for tpi_sender in [B, A] {
                    // who signed / which keys the state event lists
                    for (signer, listed) in [(Some(&good), vec![&good]), (Some(&other), vec![&good]), (Some(&good), vec![&other, &good]), (Some(&good), vec![&good, &other]), (Some(&other), vec![&good, &good]), (None, vec![&good]), (Some(&good), vec![])] {
                        for sender_membership in ["join", "leave"] {
                            let mut signed: CanonicalJsonObject = CanonicalJsonObject::new();
                            if !mxid.is_empty() {
                                signed.insert("mxid".into(), mxid.into());
                            }
                            if !token_in_event.is_empty() {
                                signed.insert("token".into(), token_in_event.into());
                            }
                            match signer {
                                Some(k) => sign_json("idserver", k, &mut signed).unwrap(),
                                None => {
                                    signed.insert("signatures".into(), serde_json::from_value(json!({"idserver": {"ed25519:0": "AAAA"}})).unwrap());
                                }
                            }
                            let content = json!({"membership": "invite", "third_party_invite": {"display_name": "x", "signed": serde_json::to_value(&signed).unwrap()}});
                            let st = St {
                                create: Some((A.into(), true, None)),
                                pl: None,
                                join_rule: Some("invite".into()),
                                members: members(&[(B, sender_membership), (C, target_membership), (A, "join")]),
                            };
                            let mut rst = render_state(&st);
                            let mut keys = Map::new();
                            if let Some(first) = listed.first() {
                                keys.insert("public_key".into(), json!(pk(first)));
                            }
                            keys.insert("public_keys".into(), Value::Array(listed.iter().skip(1).map(|k| json!({"public_key": pk(k)})).collect()));
                            let none: [String; 0] = [];
                            rst.insert(
                                (StateEventType::RoomThirdPartyInvite, token_in_state.to_owned()),
                                pdu("$tpi", tpi_sender, "m.room.third_party_invite", Some(token_in_state), &Value::Object(keys), &none, &none, None, "!r:s"),
                            );
                            let ev = base_ev("m.room.member", B, Some(C), content);
                            // the rules
                            let want = target_membership != "ban"
                                && mxid == C
                                && !token_in_event.is_empty()
                                && token_in_event == token_in_state
                                && tpi_sender == B
                                && signer.is_some_and(|s| listed.iter().any(|l| l.public_key() == s.public_key()));
                            acc.n += 1;
                            if want {
                                acc.accepted += 1;
                            }
                            match real(rules, &rst, &ev) {
                                Err(_) => acc.fp.push(describe(vname, &st, &ev, json!("panic"), want)),
                                Ok(got) => {
                                    if got != want && acc.f.len() < 25 {
                                        let mut d = describe(vname, &st, &ev, json!(got), want);
                                        d["third_party_invite_state_event"] = json!({"state_key": token_in_state, "sender": tpi_sender, "keys_listed": listed.len(),
                                            "signed_by_a_listed_key": signer.is_some_and(|s| listed.iter().any(|l| l.public_key() == s.public_key()))});
                                        acc.f.push(d);
                                    }
                                }
                            }
                        }
                    }
                }
            }
        }
    }
}

/// C20: each RoomPowerLevels helper answers yes exactly when the REAL auth_check accepts the corresponding event from
/// that user as a joined member of a room with those power levels (room versions 3-11), and for notifications when the
/// real push condition `sender_notification_permission` holds.
fn scenario_helpers(vname: &str, rules: &AuthorizationRules, acc: &mut Acc) {
    use ruma_common::push::{FlattenedJson, PushCondition, PushConditionRoomCtx};
    use ruma_common::serde::Raw;
    use ruma_events::{room::power_levels::{RoomPowerLevels, RoomPowerLevelsEventContent}, MessageLikeEventType};
    if rules.special_case_room_redaction {
        return; // room versions 1-2 are outside the property's range
    }
    let lvs: [Option<i64>; 4] = [None, Some(0), Some(50), Some(100)];
    let reprs: &[bool] = if rules.integer_power_levels { &[false] } else { &[false, true] };
    let b = OwnedUserId::try_from(B).unwrap();
    let c = OwnedUserId::try_from(C).unwrap();
    for &as_str in reprs {
        let lv = |x: Option<i64>| x.map(|i| if as_str { Lv::Str(i) } else { Lv::Int(i) });
        for lb in lvs {
            for lc in lvs {
                for ud in [None, Some(50i64)] {
                    for (ban, kick, invite) in [(None, None, None), (Some(0), Some(100), Some(50)), (Some(100), Some(0), Some(100)), (Some(50), Some(50), Some(0))] {
                        for (ev_entry, sd, ed, notif) in [(None, None, None, None), (Some(50i64), Some(100i64), Some(0i64), Some(0i64)), (Some(0), Some(0), Some(100), Some(100)), (Some(100), Some(50), Some(50), Some(50))] {
                            let mut pl = Pl { ban: lv(ban), kick: lv(kick), invite: lv(invite), users_default: lv(ud), state_default: lv(sd), events_default: lv(ed), ..Default::default() };
                            if let Some(l) = lv(lb) {
                                pl.users.push((B.into(), l));
                            }
                            if let Some(l) = lv(lc) {
                                pl.users.push((C.into(), l));
                            }
                            if let Some(l) = lv(ev_entry) {
                                pl.events.push(("m.room.message".into(), l.clone()));
                                pl.events.push(("m.room.name".into(), l));
                            }
                            if let Some(l) = lv(notif) {
                                pl.notifications.push(("room".into(), l));
                            }
                            let content: RoomPowerLevelsEventContent = match serde_json::from_value(pl.json()) {
                                Ok(c) => c,
                                Err(e) => {
                                    if acc.f.len() < 25 {
                                        acc.f.push(json!({"rules": vname, "power_levels": pl.json(), "observed": format!("content does not deserialize: {e}")}));
                                    }
                                    continue;
                                }
                            };
                            let helper = RoomPowerLevels::from(content);
                            // RoomPowerLevels::max: the largest of users_default and every users entry
                            let want_max = [ud.unwrap_or(0)].into_iter().chain(lb).chain(lc).max().unwrap_or(0);
                            let got_max = i64::from(helper.max());
                            if got_max != want_max && acc.fmax.len() < 25 {
                                acc.fmax.push(json!({"rules": vname, "power_levels": pl.json(), "expected": want_max, "observed": got_max, "call": "RoomPowerLevels::max()"}));
                            }
                            // (name, helper's answer, corresponding event, target's current membership)
                            let cases: Vec<(&str, bool, Ev, &str)> = vec![
                                ("user_can_ban_user", helper.user_can_ban_user(&b, &c), base_ev("m.room.member", B, Some(C), json!({"membership": "ban"})), "join"),
                                ("user_can_kick_user", helper.user_can_kick_user(&b, &c), base_ev("m.room.member", B, Some(C), json!({"membership": "leave"})), "join"),
                                ("user_can_unban_user", helper.user_can_unban_user(&b, &c), base_ev("m.room.member", B, Some(C), json!({"membership": "leave"})), "ban"),
                                ("user_can_invite", helper.user_can_invite(&b), base_ev("m.room.member", B, Some(C), json!({"membership": "invite"})), "leave"),
                                ("user_can_send_message", helper.user_can_send_message(&b, MessageLikeEventType::RoomMessage), base_ev("m.room.message", B, None, json!({"body": "x"})), "join"),
                                ("user_can_send_state", helper.user_can_send_state(&b, StateEventType::RoomName), base_ev("m.room.name", B, Some(""), json!({"name": "x"})), "join"),
                            ];
                            for (name, answer, ev, mt) in cases {
                                acc.n += 1;
                                let st = St { create: Some((A.into(), true, None)), pl: Some(pl.clone()), join_rule: Some("invite".into()), members: members(&[(B, "join"), (C, mt), (A, "join")]) };
                                let rst = render_state(&st);
                                match real(rules, &rst, &ev) {
                                    Err(_) => acc.fp.push(describe(vname, &st, &ev, json!("panic"), answer)),
                                    Ok(got) => {
                                        if got {
                                            acc.accepted += 1;
                                        }
                                        if got != answer && acc.f.len() < 25 {
                                            let mut d = describe(vname, &st, &ev, json!(got), O { rules, st: &st }.auth(&ev));
                                            d["helper"] = json!(name);
                                            d["helper_answer"] = json!(answer);
                                            acc.f.push(d);
                                        }
                                    }
                                }
                            }
                            // state types whose acceptance is decided by rules of their own, not by `events` / `state_default`
                            let ded: Vec<(&str, bool, Ev)> = vec![
                                ("user_can_send_state(m.room.third_party_invite)", helper.user_can_send_state(&b, StateEventType::RoomThirdPartyInvite),
                                    base_ev("m.room.third_party_invite", B, Some("tok"), json!({"display_name": "d", "key_validity_url": "https://s/v", "public_key": "YWJj"}))),
                                ("user_can_send_state(m.room.create)", helper.user_can_send_state(&b, StateEventType::RoomCreate), base_ev("m.room.create", B, Some(""), json!({"creator": B}))),
                            ];
                            for (name, answer, ev) in ded {
                                acc.n += 1;
                                let st = St { create: Some((A.into(), true, None)), pl: Some(pl.clone()), join_rule: Some("invite".into()), members: members(&[(B, "join"), (C, "join"), (A, "join")]) };
                                let rst = render_state(&st);
                                if let Ok(got) = real(rules, &rst, &ev) {
                                    if got {
                                        acc.accepted += 1;
                                    }
                                    if got != answer && acc.fded.len() < 6 {
                                        let mut d = describe(vname, &st, &ev, json!(got), O { rules, st: &st }.auth(&ev));
                                        d["helper"] = json!(name);
                                        d["helper_answer"] = json!(answer);
                                        acc.fded.push(d);
                                    }
                                }
                            }
                            // effective level and the notification helper vs the real push condition
                            acc.n += 1;
                            let want_level = lb.or(ud).unwrap_or(0);
                            if i64::from(helper.for_user(&b)) != want_level && acc.f.len() < 25 {
                                acc.f.push(json!({"rules": vname, "power_levels": pl.json(), "helper": "for_user", "helper_answer": i64::from(helper.for_user(&b)), "expected": want_level}));
                            }
                            let ctx = PushConditionRoomCtx {
                                room_id: OwnedRoomId::try_from("!r:s").unwrap(),
                                member_count: 2u32.into(),
                                user_id: c.clone(),
                                user_display_name: "c".into(),
                                power_levels: Some(helper.clone().into()),
                            };
                            let raw: Raw<Value> = Raw::new(&json!({"sender": B, "content": {}})).unwrap();
                            let flat = FlattenedJson::from_raw(&raw);
                            let cond: PushCondition = serde_json::from_value(json!({"kind": "sender_notification_permission", "key": "room"})).unwrap();
                            let push = cond.applies(&flat, &ctx);
                            if push != helper.user_can_trigger_room_notification(&b) && acc.f.len() < 25 {
                                acc.f.push(json!({"rules": vname, "power_levels": pl.json(), "helper": "user_can_trigger_room_notification",
                                    "helper_answer": helper.user_can_trigger_room_notification(&b), "push_condition_holds": push}));
                            }
                        }
                    }
                }
            }
        }
    }
}

// ------------------------------------------------------------------------------------------------ C09: the selection itself
/// The subset of the room state the specification names for an event ("auth events selection"), written from the
/// specification text and independent of the code. `None` = the content is malformed in a field the selection needs.
fn spec_selection(ty: &str, sender: &str, state_key: Option<&str>, content: &Value, rules: &AuthorizationRules) -> Option<BTreeSet<(String, String)>> {
    let mut s = BTreeSet::new();
    if ty == "m.room.create" {
        return Some(s);
    }
    s.insert(("m.room.create".to_owned(), String::new()));
    s.insert(("m.room.power_levels".to_owned(), String::new()));
    s.insert(("m.room.member".to_owned(), sender.to_owned()));
    if ty == "m.room.member" {
        let sk = state_key?;
        s.insert(("m.room.member".to_owned(), sk.to_owned()));
        let membership = content.get("membership")?.as_str()?;
        if matches!(membership, "join" | "invite" | "knock") {
            s.insert(("m.room.join_rules".to_owned(), String::new()));
        }
        if membership == "invite" {
            match content.get("third_party_invite") {
                None | Some(Value::Null) => {}
                Some(tpi) => {
                    let token = tpi.as_object()?.get("signed")?.as_object()?.get("token")?.as_str()?;
                    s.insert(("m.room.third_party_invite".to_owned(), token.to_owned()));
                }
            }
        }
        if membership == "join" && rules.restricted_join_rule {
            match content.get("join_authorised_via_users_server") {
                None | Some(Value::Null) => {}
                Some(u) => {
                    let u = u.as_str()?;
                    OwnedUserId::try_from(u).ok()?;
                    s.insert(("m.room.member".to_owned(), u.to_owned()));
                }
            }
        }
    }
    Some(s)
}

fn selection_check(vname: &str, rules: &AuthorizationRules, f: &mut Vec<Value>) -> u64 {
    let mut n = 0;
    let tpis: Vec<Option<Value>> = vec![
        None,
        Some(json!(null)),
        Some(json!("gone")),
        Some(json!(7)),
        Some(json!({"display_name": "x"})),
        Some(json!({"display_name": "x", "signed": {"mxid": B, "token": "tok", "signatures": {}}})),
        Some(json!({"signed": {"mxid": B}})),
        Some(json!({"signed": {"token": 5}})),
        Some(json!({"signed": "s"})),
    ];
    let vias: Vec<Option<Value>> = vec![None, Some(json!(null)), Some(json!(C)), Some(json!("nobody")), Some(json!(1)), Some(json!({"u": C})), Some(json!(A))];
    let memberships: Vec<Option<Value>> =
        vec![Some(json!("join")), Some(json!("invite")), Some(json!("leave")), Some(json!("ban")), Some(json!("knock")), Some(json!("other")), Some(json!(3)), None];
    let types = ["m.room.member", "m.room.create", "m.room.message", "m.room.power_levels", "m.room.join_rules", "m.room.third_party_invite", "org.x"];
    for ty in types {
        for sender in [A, B] {
            for sk in [None, Some(""), Some(A), Some(B), Some("not a user id")] {
                for m in &memberships {
                    for tpi in &tpis {
                        for via in &vias {
                            let mut c = serde_json::Map::new();
                            if let Some(m) = m {
                                c.insert("membership".into(), m.clone());
                            }
                            if let Some(t) = tpi {
                                c.insert("third_party_invite".into(), t.clone());
                            }
                            if let Some(v) = via {
                                c.insert("join_authorised_via_users_server".into(), v.clone());
                            }
                            let content = Value::Object(c);
                            n += 1;
                            let want = spec_selection(ty, sender, sk, &content, rules);
                            let raw = serde_json::value::to_raw_value(&content).unwrap();
                            let su = OwnedUserId::try_from(sender).unwrap();
                            let got = std::panic::catch_unwind(std::panic::AssertUnwindSafe(|| {
                                auth_types_for_event(&TimelineEventType::from(ty), &su, sk, &raw, rules)
                            }));
                            let got_set: Option<Option<BTreeSet<(String, String)>>> = match &got {
                                Err(_) => None,
                                Ok(Err(_)) => Some(None),
                                Ok(Ok(v)) => Some(Some(v.iter().map(|(t, k)| (t.to_string(), k.clone())).collect())),
                            };
                            let dup = matches!(&got, Ok(Ok(v)) if v.iter().collect::<BTreeSet<_>>().len() != v.len());
                            if (got_set != Some(want.clone()) || dup) && f.len() < 25 {
                                f.push(json!({
                                    "rules": vname, "event": {"type": ty, "sender": sender, "state_key": sk, "content": content},
                                    "auth_types_for_event": match &got { Err(_) => json!("panic"), Ok(Err(e)) => json!({"Err": e}),
                                        Ok(Ok(v)) => json!(v.iter().map(|(t, k)| format!("({t}, {k:?})")).collect::<Vec<_>>()) },
                                    "specified_selection": match &want { None => json!("Err (a field the selection reads is malformed)"),
                                        Some(s) => json!(s.iter().map(|(t, k)| format!("({t}, {k:?})")).collect::<Vec<_>>()) },
                                    "duplicate_entries": dup,
                                }));
                            }
                        }
                    }
                }
            }
        }
    }
    n
}

pub fn run(tier: &str) -> Report {
    let thorough = tier == "thorough";
    let versions: Vec<(&'static str, AuthorizationRules)> = vec![
        ("V1", AuthorizationRules::V1),
        ("V3", AuthorizationRules::V3),
        ("V6", AuthorizationRules::V6),
        ("V7", AuthorizationRules::V7),
        ("V8", AuthorizationRules::V8),
        ("V10", AuthorizationRules::V10),
        ("V11", AuthorizationRules::V11),
    ];
    let mut fselection = vec![];
    let mut nselection = 0;
    for (vn, r) in &versions {
        nselection += selection_check(vn, r, &mut fselection);
    }
    let handles: Vec<_> = versions
        .into_iter()
        .flat_map(|(vn, r)| (0..6).map(move |part| (vn, r.clone(), part)))
        .map(|(vn, rules, part)| {
            std::thread::spawn(move || {
                let mut acc = Acc { n: 0, accepted: 0, fsel: vec![], f: vec![], fp: vec![], fded: vec![], falias: vec![], fmax: vec![] };
                match part {
                    0 => scenario_membership(vn, &rules, thorough, &mut acc),
                    1 => {
                        scenario_generic(vn, &rules, &mut acc);
                        scenario_alias(vn, &rules, &mut acc);
                    }
                    2 => scenario_power_levels(vn, &rules, thorough, &mut acc),
                    3 => scenario_create(vn, &rules, &mut acc),
                    4 => scenario_helpers(vn, &rules, &mut acc),
                    _ => scenario_tpi(vn, &rules, &mut acc),
                }
                (part, acc)
            })
        })
        .collect();
    let mut n = [0u64; 6];
    let mut acc_n = [0u64; 6];
    let mut f: [Vec<Value>; 6] = Default::default();
    let mut fp = vec![];
    let mut fsel = vec![];
    let mut fded: Vec<Value> = vec![];
    let mut falias: Vec<Value> = vec![];
    let mut fmax: Vec<Value> = vec![];
    for h in handles {
        match h.join() {
            Ok((part, acc)) => {
                n[part] += acc.n;
                acc_n[part] += acc.accepted;
                for x in acc.f {
                    if f[part].len() < 30 {
                        f[part].push(x);
                    }
                }
                for x in acc.fp {
                    if fp.len() < 30 {
                        fp.push(x);
                    }
                }
                for x in acc.falias {
                    if falias.len() < 60 {
                        falias.push(x);
                    }
                }
                for x in acc.fmax {
                    if fmax.len() < 40 {
                        fmax.push(x);
                    }
                }
                for x in acc.fded {
                    if fded.len() < 40 {
                        fded.push(x);
                    }
                }
                for x in acc.fsel {
                    if fsel.len() < 30 {
                        fsel.push(x);
                    }
                }
            }
            Err(_) => fp.push(json!({"observed": "enumeration thread panicked"})),
        }
    }
    let total: u64 = n.iter().sum();
    let _ = total;
    // vacuity guard: every scenario must contain events the rules accept and events they reject
    for part in 0..6 {
        if part == 4 && n[4] == 0 { continue; }
        if acc_n[part] == 0 || acc_n[part] == n[part] {
            fp.push(json!({"observed": format!("scenario {part} is vacuous: {} of {} cases accepted by the rules", acc_n[part], n[part])}));
        }
    }
    let [f0, f1, f2, f3, f4, f5] = f;
    Report {
        bound: format!(
            "7 distinct AuthorizationRules (room versions 1-11) x membership transitions: {} cases (2 senders x 3 targets x 6x6 current memberships x 5{} power-level shapes x levels {{0,50,100}}^2 x 7 join rules x 6 memberships x authorising user x prev_events shapes); other event types: {} cases; power-level changes: {} cases (7 fields + events/notifications/users entries x 7x7 current/new values incl. string and malformed levels x sender level in {}); create: {} cases; accepted by the rules: {:?} of {:?}",
            n[0], if thorough { "+2" } else { "" }, n[1], n[2], if thorough { "{0,49,50,51,100}" } else { "{0,50,100}" }, n[3], acc_n, n
        ),
        cases: total,
        obligations: vec![
            ("membership_transitions_accepted_exactly_as_the_rules_say", n[0], f0),
            ("other_event_types_accepted_exactly_as_the_rules_say", n[1], f1),
            ("other_event_types_with_a_second_spelling_use_the_entry_of_their_own_type", n[1], falias),
            ("power_level_changes_accepted_exactly_as_the_rules_say", n[2], f2),
            ("room_creation_accepted_exactly_as_the_rules_say", n[3], f3),
            ("power_level_helpers_answer_as_auth_check_decides", n[4], f4),
            ("send_state_helper_on_state_types_with_rules_of_their_own", n[4], fded),
            ("power_level_helpers_max_is_the_largest_of_users_default_and_every_user_level", n[4] / 6, fmax),
            ("third_party_invites_accepted_exactly_as_the_rules_say", n[5], f5),
            ("decision_depends_only_on_the_selected_auth_state_entries", total, fsel),
            ("selection_is_the_specified_subset_of_the_state", nselection, fselection),
            ("auth_check_never_panics", total, fp),
        ],
    }
}
