//! C06 / C07 bounded stand-in: the real `ruma_state_res::resolve` and `lexicographical_topological_sort` against a
//! reference implementation of Matrix state resolution v2 written here from the specification (with the executable
//! reading of the authorization rules of `auth.rs` as its auth check), on simulated room histories with forks.
//! `resolve()` works on HashMap / HashSet, trait-object iterators and event-fetching closures: no function of it except
//! the comparator kernel (unit `sort`) is within reach of Verus or Kani, so nothing here is proved.
//!
//! Histories: a base room (create, creator join, power levels, public join rule, bob and charlie join), then two or
//! three forks of one or two events each from a 13-event menu (power-level changes by the admin and by a moderator, ban /
//! kick / leave / rejoin, join-rule change, topics by users with and without the power to set them, a new user joining),
//! every event valid in its own fork; three timestamp assignments (increasing, all equal, reversed).
//! C07: resolve(states at the fork tips) == reference result.
//! C06: the result is the same for every permutation of the state sets and auth-chain sets, on repeated calls (fresh
//!      hash seeds), on another thread, and with every auth_events list reversed or rotated (3 calls each); a single state
//!      set, or identical ones, is returned unchanged.
//! Topological sort: every DAG on up to 5 nodes with keys from a 2x2 domain: each node once, dependencies first, among
//! ready nodes the greatest power level, then earliest timestamp, then smallest event id.
use std::collections::{BTreeMap, BTreeSet, HashMap, HashSet};

use ruma_common::{room_version_rules::AuthorizationRules, MilliSecondsSinceUnixEpoch, OwnedEventId};
use ruma_events::StateEventType;
use ruma_state_res::{lexicographical_topological_sort, resolve, StateMap};
use serde_json::{json, Value};

use super::auth::{pdu_ts, Ev, Lv, Pdu, Pl, St, O};
use super::Report;

const A: &str = "@a:s";
const B: &str = "@b:s";
const C: &str = "@c:s";
const D: &str = "@d:s";

type Key = (String, String);

#[derive(Clone, Debug)]
struct MEv {
    id: String,
    sender: String,
    ty: String,
    state_key: String,
    content: Value,
    auth: Vec<String>,
    prev: Vec<String>,
    ts: u64,
    pl: Option<Pl>,
}

#[derive(Clone)]
struct World {
    events: BTreeMap<String, MEv>,
}

fn pl_of(levels: &[(&str, i64)]) -> Pl {
    let mut p = Pl::default();
    p.users = levels.iter().map(|(u, l)| (u.to_string(), Lv::Int(*l))).collect();
    p
}

/// the abstract state (for the oracle) described by a map key -> event id
fn st_of(w: &World, state: &BTreeMap<Key, String>) -> St {
    let ev = |ty: &str, k: &str| state.get(&(ty.to_owned(), k.to_owned())).and_then(|id| w.events.get(id));
    St {
        create: ev("m.room.create", "").map(|e| (e.sender.clone(), e.content.get("creator").is_some(), None)),
        pl: ev("m.room.power_levels", "").and_then(|e| e.pl.clone()),
        join_rule: ev("m.room.join_rules", "").and_then(|e| e.content.get("join_rule").and_then(|j| j.as_str()).map(|s| s.to_owned())),
        members: state
            .iter()
            .filter(|((t, _), _)| t == "m.room.member")
            .filter_map(|((_, k), id)| w.events.get(id).and_then(|e| e.content.get("membership").and_then(|m| m.as_str()).map(|m| (k.clone(), m.to_owned()))))
            .collect(),
    }
}

/// the (type, state_key) pairs the specification selects as auth events
fn auth_keys(e_ty: &str, sender: &str, state_key: &str, content: &Value) -> Vec<Key> {
    if e_ty == "m.room.create" {
        return vec![];
    }
    let mut k = vec![("m.room.create".to_owned(), String::new()), ("m.room.power_levels".to_owned(), String::new()), ("m.room.member".to_owned(), sender.to_owned())];
    if e_ty == "m.room.member" {
        if state_key != sender {
            k.push(("m.room.member".to_owned(), state_key.to_owned()));
        }
        let m = content.get("membership").and_then(|m| m.as_str()).unwrap_or("");
        if matches!(m, "join" | "invite" | "knock") {
            k.push(("m.room.join_rules".to_owned(), String::new()));
        }
    }
    k
}

fn to_ev(e: &MEv) -> Ev {
    Ev {
        ty: e.ty.clone(),
        sender: e.sender.clone(),
        state_key: Some(e.state_key.clone()),
        content: e.content.clone(),
        prev_events: e.prev.clone(),
        auth_events: e.auth.clone(),
        redacts: None,
        room_id: "!r:s".into(),
        new_pl: e.pl.clone(),
    }
}

/// menu entry: (name, sender, type, state_key, content, new power levels)
fn menu() -> Vec<(&'static str, &'static str, &'static str, &'static str, Value, Option<Pl>)> {
    let plj = |p: &Pl| p.json();
    let p1 = pl_of(&[(A, 100), (B, 50), (C, 50)]);
    let p2 = pl_of(&[(A, 100), (B, 0)]);
    let p3 = pl_of(&[(A, 100), (B, 50), (C, 10)]);
    let p4 = pl_of(&[(A, 100), (B, 50), (D, 50)]);
    // a promotion: the same sender then has power events sent under different levels in different forks
    let p5 = pl_of(&[(A, 100), (B, 100), (C, 75)]);
    vec![
        ("A-pl-c50", A, "m.room.power_levels", "", plj(&p1), Some(p1)),
        ("A-pl-b0", A, "m.room.power_levels", "", plj(&p2), Some(p2)),
        ("B-pl-c10", B, "m.room.power_levels", "", plj(&p3), Some(p3)),
        ("B-pl-d50", B, "m.room.power_levels", "", plj(&p4), Some(p4)),
        ("B-ban-c", B, "m.room.member", C, json!({"membership": "ban"}), None),
        ("A-kick-b", A, "m.room.member", B, json!({"membership": "leave"}), None),
        ("A-ban-b", A, "m.room.member", B, json!({"membership": "ban"}), None),
        ("B-jr-invite", B, "m.room.join_rules", "", json!({"join_rule": "invite"}), None),
        ("B-topic", B, "m.room.topic", "", json!({"topic": "b"}), None),
        ("C-topic", C, "m.room.topic", "", json!({"topic": "c"}), None),
        ("C-leave", C, "m.room.member", C, json!({"membership": "leave"}), None),
        ("C-join", C, "m.room.member", C, json!({"membership": "join", "displayname": "again"}), None),
        ("D-join", D, "m.room.member", D, json!({"membership": "join"}), None),
        // (appended, so that the quick tier's sample of fork shapes keeps the shapes it had)
        ("A-pl-b100", A, "m.room.power_levels", "", plj(&p5), Some(p5)),
        ("B-jr-knock", B, "m.room.join_rules", "", json!({"join_rule": "knock"}), None),
        ("C-jr-private", C, "m.room.join_rules", "", json!({"join_rule": "private"}), None),
        ("A-jr-invite", A, "m.room.join_rules", "", json!({"join_rule": "invite"}), None),
    ]
}

struct Builder {
    w: World,
    n: u64,
}
impl Builder {
    /// append an event on top of `parent` (state `st`); returns the new state, or None if the event is not allowed there
    fn add(&mut self, rules: &AuthorizationRules, parent: &str, st: &BTreeMap<Key, String>, name: &str, sender: &str, ty: &str, sk: &str, content: Value, pl: Option<Pl>, must: bool) -> Option<(String, BTreeMap<Key, String>)> {
        self.n += 1;
        let id = format!("${}-{}", self.n, name);
        let auth: Vec<String> = auth_keys(ty, sender, sk, &content).into_iter().filter_map(|k| st.get(&k).cloned()).collect();
        let e = MEv { id: id.clone(), sender: sender.into(), ty: ty.into(), state_key: sk.into(), content, auth, prev: if parent.is_empty() { vec![] } else { vec![parent.into()] }, ts: self.n, pl };
        let mut ev = to_ev(&e);
        // the oracle knows the create event under the id "$create"
        ev.auth_events = e.auth.iter().map(|a| if a.ends_with("-create") { "$create".to_owned() } else { a.clone() }).collect();
        ev.prev_events = e.prev.iter().map(|a| if a.ends_with("-create") { "$create".to_owned() } else { a.clone() }).collect();
        let ok = O { rules, st: &st_of(&self.w, st) }.auth(&ev);
        if !ok {
            assert!(!must, "base event {name} rejected by the rules");
            self.n -= 1;
            return None;
        }
        self.w.events.insert(id.clone(), e);
        let mut st2 = st.clone();
        st2.insert((ty.to_owned(), sk.to_owned()), id.clone());
        Some((id, st2))
    }
}

// ------------------------------------------------------------------------------------------------ reference
fn auth_chain(w: &World, id: &str, out: &mut BTreeSet<String>) {
    if let Some(e) = w.events.get(id) {
        for a in &e.auth {
            if out.insert(a.clone()) {
                auth_chain(w, a, out);
            }
        }
    }
}

fn is_power_event(e: &MEv) -> bool {
    match e.ty.as_str() {
        "m.room.power_levels" | "m.room.join_rules" | "m.room.create" => e.state_key.is_empty(),
        "m.room.member" => {
            let m = e.content.get("membership").and_then(|m| m.as_str()).unwrap_or("");
            (m == "leave" || m == "ban") && e.sender != e.state_key
        }
        _ => false,
    }
}

/// power level of the sender of `e` as seen from its auth events
fn sender_level(w: &World, e: &MEv) -> i64 {
    let mut pl = None;
    let mut create = None;
    for a in &e.auth {
        if let Some(x) = w.events.get(a) {
            if x.ty == "m.room.power_levels" {
                pl = Some(x);
            } else if x.ty == "m.room.create" {
                create = Some(x);
            }
        }
    }
    match pl {
        Some(p) => p.pl.as_ref().map(|p| p.users.iter().find(|(u, _)| *u == e.sender).map(|(_, l)| if let Lv::Int(i) = l { *i } else { 0 }).unwrap_or(0)).unwrap_or(0),
        None => {
            if create.is_some_and(|c| c.sender == e.sender) || (e.ty == "m.room.create") { 100 } else { 0 }
        }
    }
}

/// Kahn's algorithm: dependencies first; among ready nodes the smallest (-power, ts, id)
fn topo(nodes: &BTreeSet<String>, deps: &dyn Fn(&str) -> Vec<String>, key: &dyn Fn(&str) -> (i64, u64)) -> Vec<String> {
    let mut remaining: BTreeSet<String> = nodes.clone();
    let mut out = vec![];
    while !remaining.is_empty() {
        let mut ready: Vec<&String> = remaining.iter().filter(|n| deps(n).iter().all(|d| !remaining.contains(d))).collect();
        ready.sort_by(|a, b| {
            let (pa, ta) = key(a);
            let (pb, tb) = key(b);
            pb.cmp(&pa).then(ta.cmp(&tb)).then(a.cmp(b))
        });
        let pick = ready[0].clone();
        remaining.remove(&pick);
        out.push(pick);
    }
    out
}

fn iterative_auth(rules: &AuthorizationRules, w: &World, order: &[String], mut partial: BTreeMap<Key, String>) -> BTreeMap<Key, String> {
    for id in order {
        let e = &w.events[id];
        // the state to authorise against: the event's own auth events, overridden by the partial state for the selected keys
        let mut st: BTreeMap<Key, String> = BTreeMap::new();
        for a in &e.auth {
            if let Some(x) = w.events.get(a) {
                st.insert((x.ty.clone(), x.state_key.clone()), a.clone());
            }
        }
        for k in auth_keys(&e.ty, &e.sender, &e.state_key, &e.content) {
            if let Some(v) = partial.get(&k) {
                st.insert(k, v.clone());
            }
        }
        let mut ev = to_ev(e);
        let create_id = st.get(&("m.room.create".to_owned(), String::new())).cloned();
        ev.auth_events = e.auth.iter().map(|a| if Some(a) == create_id.as_ref() { "$create".to_owned() } else { a.clone() }).collect();
        ev.prev_events = e.prev.iter().map(|a| if Some(a) == create_id.as_ref() { "$create".to_owned() } else { a.clone() }).collect();
        if (O { rules, st: &st_of(w, &st) }).auth(&ev) {
            partial.insert((e.ty.clone(), e.state_key.clone()), id.clone());
        }
    }
    partial
}

fn resolve_ref(rules: &AuthorizationRules, w: &World, sets: &[BTreeMap<Key, String>]) -> BTreeMap<Key, String> {
    // unconflicted: same value in every state set; everything else is conflicted
    let mut keys: BTreeSet<Key> = BTreeSet::new();
    for s in sets {
        keys.extend(s.keys().cloned());
    }
    let mut unconflicted = BTreeMap::new();
    let mut conflicted: BTreeSet<String> = BTreeSet::new();
    for k in keys {
        let vals: Vec<Option<&String>> = sets.iter().map(|s| s.get(&k)).collect();
        if vals.iter().all(|v| v.is_some() && *v == vals[0]) {
            unconflicted.insert(k, vals[0].unwrap().clone());
        } else {
            conflicted.extend(vals.into_iter().flatten().cloned());
        }
    }
    if conflicted.is_empty() {
        return unconflicted;
    }
    // auth difference
    let chains: Vec<BTreeSet<String>> = sets
        .iter()
        .map(|s| {
            let mut c = BTreeSet::new();
            for id in s.values() {
                c.insert(id.clone());
                auth_chain(w, id, &mut c);
            }
            c
        })
        .collect();
    let union: BTreeSet<String> = chains.iter().flatten().cloned().collect();
    let diff: BTreeSet<String> = union.iter().filter(|x| !chains.iter().all(|c| c.contains(*x))).cloned().collect();
    let full: BTreeSet<String> = conflicted.union(&diff).cloned().collect();
    // power events and the part of their auth chains inside the full conflicted set
    let mut x: BTreeSet<String> = full.iter().filter(|id| is_power_event(&w.events[*id])).cloned().collect();
    for p in x.clone() {
        let mut c = BTreeSet::new();
        auth_chain(w, &p, &mut c);
        x.extend(c.into_iter().filter(|a| full.contains(a)));
    }
    let sorted_power = topo(&x, &|n| w.events[n].auth.iter().filter(|a| x.contains(*a)).cloned().collect(), &|n| (sender_level(w, &w.events[n]), w.events[n].ts));
    let partial = iterative_auth(rules, w, &sorted_power, unconflicted.clone());
    // mainline ordering of the rest
    let rest: Vec<String> = full.iter().filter(|id| !x.contains(*id)).cloned().collect();
    let mut mainline: Vec<String> = vec![];
    let mut cur = partial.get(&("m.room.power_levels".to_owned(), String::new())).cloned();
    while let Some(p) = cur {
        mainline.push(p.clone());
        cur = w.events[&p].auth.iter().find(|a| w.events.get(*a).is_some_and(|e| e.ty == "m.room.power_levels")).cloned();
    }
    mainline.reverse(); // oldest first: position 0 is the oldest power-levels event
    let depth = |id: &str| -> i64 {
        let mut cur = Some(id.to_owned());
        while let Some(c) = cur {
            if let Some(i) = mainline.iter().position(|m| *m == c) {
                return i as i64 + 1;
            }
            cur = w.events[&c].auth.iter().find(|a| w.events.get(*a).is_some_and(|e| e.ty == "m.room.power_levels")).cloned();
        }
        0
    };
    let mut sorted_rest = rest;
    sorted_rest.sort_by(|a, b| depth(a).cmp(&depth(b)).then(w.events[a].ts.cmp(&w.events[b].ts)).then(a.cmp(b)));
    let mut result = iterative_auth(rules, w, &sorted_rest, partial);
    for (k, v) in unconflicted {
        result.insert(k, v);
    }
    result
}

// ------------------------------------------------------------------------------------------------ real
fn to_real_map(m: &BTreeMap<Key, String>) -> StateMap<OwnedEventId> {
    m.iter().map(|((t, k), v)| ((StateEventType::from(t.as_str()), k.clone()), OwnedEventId::try_from(v.as_str()).unwrap())).collect()
}

fn real_resolve(rules: &AuthorizationRules, pdus: &HashMap<OwnedEventId, Pdu>, w: &World, sets: &[BTreeMap<Key, String>]) -> Result<BTreeMap<Key, String>, String> {
    let maps: Vec<StateMap<OwnedEventId>> = sets.iter().map(to_real_map).collect();
    let chains: Vec<HashSet<OwnedEventId>> = sets
        .iter()
        .map(|s| {
            let mut c = BTreeSet::new();
            for id in s.values() {
                c.insert(id.clone());
                auth_chain(w, id, &mut c);
            }
            c.into_iter().map(|x| OwnedEventId::try_from(x.as_str()).unwrap()).collect()
        })
        .collect();
    let r = std::panic::catch_unwind(std::panic::AssertUnwindSafe(|| resolve(rules, maps.iter(), chains, |id| pdus.get(id).cloned())));
    match r {
        Err(_) => Err("panic".into()),
        Ok(Err(e)) => Err(format!("error: {e}")),
        Ok(Ok(m)) => Ok(m.into_iter().map(|((t, k), v)| ((t.to_string(), k), v.to_string())).collect()),
    }
}

fn fail(v: &mut Vec<Value>, x: Value) {
    if v.len() < 20 {
        v.push(x);
    }
}

fn show(m: &BTreeMap<Key, String>) -> Value {
    Value::Object(m.iter().map(|((t, k), v)| (format!("{t}|{k}"), json!(v))).collect())
}

fn run_rules(vname: &'static str, rules: AuthorizationRules, thorough: bool) -> (u64, Vec<Value>, Vec<Value>, Vec<Value>, Vec<Value>, u64, Vec<Value>) {
    let mut nontrivial = 0u64;
    let mut samples: Vec<Value> = vec![];
    let (mut n, mut f_ref, mut f_det, mut f_single, mut f_panic) = (0u64, vec![], vec![], vec![], vec![]);
    let m = menu();
    let timestamp_modes = if thorough { vec![0u8, 1, 2] } else { vec![0, 1] };
    // fork shapes: two forks of 1..2 events, optionally a third fork of one event
    let mut shapes: Vec<Vec<Vec<usize>>> = vec![];
    for a in 0..m.len() {
        for b in 0..m.len() {
            if a < b {
                shapes.push(vec![vec![a], vec![b]]);
            }
            if a != b {
                for c in 0..m.len() {
                    if c != a && c != b && (thorough || (a + 2 * b + 3 * c) % 4 == 0) {
                        shapes.push(vec![vec![a, c], vec![b]]);
                        if a < b && (thorough || (a + b + c) % 3 == 0) {
                            shapes.push(vec![vec![a], vec![b], vec![c]]);
                        }
                    }
                }
            }
        }
    }
    // three forks where the first two share their first event (an event in the auth chains of several but not all forks)
    let mut shared: Vec<Vec<Vec<usize>>> = vec![];
    for a in 0..m.len() {
        for c in 0..m.len() {
            for d in 0..m.len() {
                for b in 0..m.len() {
                    if a != b && c != d && a != c && a != d && b != c && b != d && (thorough || (a + 3 * b + 5 * c + 7 * d) % 6 == 0) {
                        shared.push(vec![vec![a, c], vec![usize::MAX, d], vec![b]]);
                    }
                }
            }
        }
    }
    shapes.extend(shared);
    // with a "demotion prelude" (the base then ends with a join-rule change by B followed by B's demotion: an unconflicted
    // power-levels event under which an event of the conflicted set is no longer allowed) for the two-fork shapes
    // ... and for the three-fork shapes with a shared first event (then two conflicted events can have the same power-levels
    // ancestor that is off the mainline but not the oldest power-levels event)
    let runs: Vec<(&Vec<Vec<usize>>, bool)> = shapes
        .iter()
        .map(|s| (s, false))
        .chain(shapes.iter().filter(|s| (s.len() == 2 && s.iter().all(|f| f.len() == 1)) || (s.len() == 3 && s[1].first() == Some(&usize::MAX))).map(|s| (s, true)))
        .collect();
    for (shape, prelude) in runs {
        for &tsmode in &timestamp_modes {
            let mut b = Builder { w: World { events: BTreeMap::new() }, n: 0 };
            let mut st = BTreeMap::new();
            let base: Vec<(&str, &str, &str, &str, Value, Option<Pl>)> = vec![
                ("create", A, "m.room.create", "", json!({"creator": A}), None),
                ("a-join", A, "m.room.member", A, json!({"membership": "join"}), None),
                ("pl", A, "m.room.power_levels", "", pl_of(&[(A, 100), (B, 50), (C, 75)]).json(), Some(pl_of(&[(A, 100), (B, 50), (C, 75)]))),
                ("jr", A, "m.room.join_rules", "", json!({"join_rule": "public"}), None),
                ("b-join", B, "m.room.member", B, json!({"membership": "join"}), None),
                ("c-join", C, "m.room.member", C, json!({"membership": "join"}), None),
            ];
            let mut base = base;
            if prelude {
                base.push(("b-jr-knock", B, "m.room.join_rules", "", json!({"join_rule": "knock"}), None));
                base.push(("a-pl-b0", A, "m.room.power_levels", "", pl_of(&[(A, 100), (B, 0), (C, 75)]).json(), Some(pl_of(&[(A, 100), (B, 0), (C, 75)]))));
            }
            let mut tip = String::new();
            for (name, s, t, k, c, p) in base {
                let (id, st2) = b.add(&rules, &tip, &st, name, s, t, k, c, p, true).unwrap();
                tip = id;
                st = st2;
            }
            let mut tips = vec![];
            let mut valid = true;
            let mut after_first: Option<(String, BTreeMap<Key, String>)> = None;
            for (fi, fork) in shape.iter().enumerate() {
                let (mut ft, mut fs) = (tip.clone(), st.clone());
                if fork.first() == Some(&usize::MAX) {
                    match &after_first {
                        Some((t, s)) => {
                            ft = t.clone();
                            fs = s.clone();
                        }
                        None => valid = false,
                    }
                }
                for (ei, &mi) in fork.iter().filter(|x| **x != usize::MAX).enumerate() {
                    let (name, s, t, k, c, p) = m[mi].clone();
                    match b.add(&rules, &ft, &fs, name, s, t, k, c, p, false) {
                        Some((id, st2)) => {
                            ft = id;
                            fs = st2;
                            if fi == 0 && ei == 0 {
                                after_first = Some((ft.clone(), fs.clone()));
                            }
                        }
                        None => valid = false,
                    }
                }
                tips.push(fs);
            }
            if !valid {
                continue;
            }
            // timestamps: 0 = creation order, 1 = all equal, 2 = reversed among the fork events
            let total = b.w.events.len() as u64;
            for e in b.w.events.values_mut() {
                e.ts = match tsmode {
                    0 => e.ts,
                    1 => 5,
                    _ => if e.ts > 6 { total + 7 - e.ts } else { e.ts },
                };
            }
            let w = b.w.clone();
            let pdus: HashMap<OwnedEventId, Pdu> = w
                .events
                .values()
                .map(|e| {
                    let p = pdu_ts(&e.id, &e.sender, &e.ty, Some(&e.state_key), &e.content, &e.prev, &e.auth, "!r:s", e.ts);
                    (p.event_id.clone(), p)
                })
                .collect();
            // the order of an event's auth_events is not specified: the same events with every auth_events list reversed
            // (m.room.power_levels before m.room.create) and rotated
            let pdus_other_orders: Vec<HashMap<OwnedEventId, Pdu>> = (0..2)
                .map(|mode| {
                    w.events
                        .values()
                        .map(|e| {
                            let mut auth = e.auth.clone();
                            if mode == 0 {
                                auth.reverse();
                            } else if !auth.is_empty() {
                                auth.rotate_left(1);
                            }
                            let p = pdu_ts(&e.id, &e.sender, &e.ty, Some(&e.state_key), &e.content, &e.prev, &auth, "!r:s", e.ts);
                            (p.event_id.clone(), p)
                        })
                        .collect()
                })
                .collect();
            n += 1;
            let want = resolve_ref(&rules, &w, &tips);
            // non-trivial: the state sets really conflict (some key has different values at the tips)
            if tips.iter().any(|t| t != &tips[0]) {
                nontrivial += 1;
                if samples.len() < 2 {
                    samples.push(json!({"rules": vname, "forks": shape.iter().map(|f| f.iter().map(|i| if *i == usize::MAX { "(after the first event of fork 1)" } else { m[*i].0 }).collect::<Vec<_>>()).collect::<Vec<_>>(), "resolved": show(&want)}));
                }
            }
            let describe = |got: &Value| {
                json!({"rules": vname, "forks": shape.iter().map(|f| f.iter().map(|i| if *i == usize::MAX { "(after the first event of fork 1)" } else { m[*i].0 }).collect::<Vec<_>>()).collect::<Vec<_>>(), "timestamps": (["increasing", "all equal", "reversed"][tsmode as usize]),
                    "resolve_returns": got, "state_resolution_v2_gives": show(&want)})
            };
            match real_resolve(&rules, &pdus, &w, &tips) {
                Err(e) => fail(if e == "panic" { &mut f_panic } else { &mut f_ref }, describe(&json!(e))),
                Ok(got) => {
                    if got != want {
                        fail(&mut f_ref, describe(&show(&got)));
                    }
                    // C06: permutations of the arguments, repeated calls (fresh hash seeds), another thread
                    let mut perms: Vec<Vec<BTreeMap<Key, String>>> = vec![tips.iter().rev().cloned().collect()];
                    if tips.len() == 3 {
                        perms.push(vec![tips[1].clone(), tips[2].clone(), tips[0].clone()]);
                        perms.push(vec![tips[0].clone(), tips[2].clone(), tips[1].clone()]);
                    }
                    perms.push(tips.clone());
                    perms.push(tips.clone());
                    for p in perms {
                        if real_resolve(&rules, &pdus, &w, &p).ok().as_ref() != Some(&got) {
                            fail(&mut f_det, describe(&json!("a permutation of the state sets / a repeated call gives a different state")));
                            break;
                        }
                    }
                    for (mode, po) in pdus_other_orders.iter().enumerate() {
                        for _ in 0..3 {
                            match real_resolve(&rules, po, &w, &tips) {
                                Ok(g) if g == got => {}
                                Ok(g) if g != want => {
                                    // (the order of an event's auth_events is not part of the specification's input)
                                    fail(&mut f_ref, describe(&json!(format!("with every auth_events list {} the result is {:?}", ["reversed", "rotated"][mode], show(&g)))));
                                    fail(&mut f_det, describe(&json!(format!("with every auth_events list {} the result is {:?}", ["reversed", "rotated"][mode], show(&g)))));
                                    break;
                                }
                                other => {
                                    fail(&mut f_det, describe(&json!(format!("with every auth_events list {} the result is {:?}", ["reversed", "rotated"][mode], other.map(|g| show(&g))))));
                                    break;
                                }
                            }
                        }
                    }
                    // a state set passed twice (two servers at the same fork) in every position: the same auth chain then occurs
                    // twice, next to each other or not
                    if tips.len() == 2 {
                        let lists = [vec![tips[0].clone(), tips[0].clone(), tips[1].clone()], vec![tips[0].clone(), tips[1].clone(), tips[0].clone()], vec![tips[1].clone(), tips[0].clone(), tips[0].clone()]];
                        for l in &lists {
                            let want_l = resolve_ref(&rules, &w, l);
                            match real_resolve(&rules, &pdus, &w, l) {
                                Ok(g) if g == want_l && g == got => {}
                                other => {
                                    let msg = json!(format!("with the first state set passed twice (positions {:?}) the result is {:?}", l.iter().map(|x| if *x == tips[0] { 0 } else { 1 }).collect::<Vec<_>>(), other.map(|g| show(&g))));
                                    fail(&mut f_ref, describe(&msg));
                                    fail(&mut f_det, describe(&msg));
                                    break;
                                }
                            }
                        }
                    }
                    let (r2, p2, w2, t2) = (rules.clone(), pdus.clone(), w.clone(), tips.clone());
                    let other = std::thread::spawn(move || real_resolve(&r2, &p2, &w2, &t2).ok()).join().ok().flatten();
                    if other.as_ref() != Some(&got) {
                        fail(&mut f_det, describe(&json!("another thread computes a different state")));
                    }
                    // a single state set, or identical ones, come back unchanged - also when the event store knows none, or
                    // only some, of the events (fetch_event may return None)
                    let empty_store: HashMap<OwnedEventId, Pdu> = HashMap::new();
                    let partial_store: HashMap<OwnedEventId, Pdu> = pdus.iter().filter(|(id, _)| id.as_str().len() % 2 == 0).map(|(k, v)| (k.clone(), v.clone())).collect();
                    for t in &tips {
                        for copies in [1usize, 2] {
                            let sets: Vec<_> = std::iter::repeat(t.clone()).take(copies).collect();
                            for (store, sname) in [(&pdus, "the full event store"), (&empty_store, "an empty event store"), (&partial_store, "a partial event store")] {
                                if real_resolve(&rules, store, &w, &sets).ok().as_ref() != Some(t) {
                                    fail(&mut f_single, describe(&json!(format!("{copies} identical state set(s) are not returned unchanged with {sname}"))));
                                }
                            }
                        }
                    }
                }
            }
        }
    }
    (n, f_ref, f_det, f_single, f_panic, nontrivial, samples)
}

/// "events with and without a power-level ancestor": forks that start before the room has a power-levels event, so that some
/// conflicted events have no power-levels event among their (transitive) auth events - mainline position "infinity", which
/// the specification orders before every event that has one - while others do
fn run_early(vname: &'static str, rules: AuthorizationRules) -> (u64, Vec<Value>, Vec<Value>) {
    let (mut n, mut f_ref, mut f_panic) = (0u64, vec![], vec![]);
    let pl_a = pl_of(&[(A, 100)]);
    let pl_b = pl_of(&[(A, 100), (B, 10)]);
    type E = (&'static str, &'static str, &'static str, Value, Option<Pl>);
    let t = |x: &'static str| -> E { (x, "m.room.topic", "", json!({"topic": x}), None) };
    let name = |x: &'static str| -> E { (x, "m.room.name", "", json!({"name": x}), None) };
    let jr = |x: &'static str, v: &str| -> E { (x, "m.room.join_rules", "", json!({"join_rule": v}), None) };
    let pl1 = || -> E { ("pl1", "m.room.power_levels", "", pl_a.json(), Some(pl_a.clone())) };
    let pl2 = || -> E { ("pl2", "m.room.power_levels", "", pl_b.json(), Some(pl_b.clone())) };
    let shapes: Vec<(&str, Vec<Vec<E>>)> = vec![
        ("topic without / topic with a power-levels ancestor", vec![vec![t("t1")], vec![pl1(), t("t2")]]),
        ("topic with / topic without a power-levels ancestor", vec![vec![pl1(), t("t1")], vec![t("t2")]]),
        ("topic without / topic under the second power-levels event", vec![vec![t("t1")], vec![pl1(), pl2(), t("t2")]]),
        ("topic and name without / topic with a power-levels ancestor", vec![vec![t("t1"), name("n1")], vec![pl1(), t("t2"), name("n2")]]),
        ("join rules and topic without / with a power-levels ancestor", vec![vec![jr("j1", "public"), t("t1")], vec![pl1(), jr("j2", "invite"), t("t2")]]),
        ("neither fork has a power-levels event", vec![vec![t("t1")], vec![t("t2"), name("n2")]]),
        ("both forks have their own power-levels event", vec![vec![pl1(), t("t1")], vec![pl2(), t("t2")]]),
        ("three forks: none / one / two power-levels events", vec![vec![t("t1")], vec![pl1(), t("t2")], vec![pl2(), name("n3"), t("t3")]]),
    ];
    for (label, shape) in &shapes {
        for tsmode in 0..3u8 {
            let mut b = Builder { w: World { events: BTreeMap::new() }, n: 0 };
            let mut st = BTreeMap::new();
            let mut tip = String::new();
            for (nm, s, ty, k, c) in [("create", A, "m.room.create", "", json!({"creator": A})), ("a-join", A, "m.room.member", A, json!({"membership": "join"}))] {
                let (id, st2) = b.add(&rules, &tip, &st, nm, s, ty, k, c, None, true).unwrap();
                tip = id;
                st = st2;
            }
            let mut tips = vec![];
            for fork in shape {
                let (mut ft, mut fs) = (tip.clone(), st.clone());
                for (nm, ty, k, c, p) in fork.iter().cloned() {
                    let (id, st2) = b.add(&rules, &ft, &fs, nm, A, ty, k, c, p, true).unwrap();
                    ft = id;
                    fs = st2;
                }
                tips.push(fs);
            }
            let total = b.w.events.len() as u64;
            for e in b.w.events.values_mut() {
                e.ts = match tsmode {
                    0 => e.ts,
                    1 => 5,
                    _ => if e.ts > 2 { total + 3 - e.ts } else { e.ts },
                };
            }
            let w = b.w.clone();
            let pdus: HashMap<OwnedEventId, Pdu> = w.events.values().map(|e| { let p = pdu_ts(&e.id, &e.sender, &e.ty, Some(&e.state_key), &e.content, &e.prev, &e.auth, "!r:s", e.ts); (p.event_id.clone(), p) }).collect();
            n += 1;
            let want = resolve_ref(&rules, &w, &tips);
            let describe = |got: &Value| {
                let events: Vec<Value> = w.events.values().map(|e| json!({"event_id": e.id, "type": e.ty, "auth_events": e.auth, "origin_server_ts": e.ts})).collect();
                json!({"rules": vname, "early_forks": label, "timestamps": (["increasing", "all equal", "reversed"][tsmode as usize]), "events": events,
                    "resolve_returns": got, "state_resolution_v2_gives": show(&want)})
            };
            match real_resolve(&rules, &pdus, &w, &tips) {
                Err(e) => fail(if e == "panic" { &mut f_panic } else { &mut f_ref }, describe(&json!(e))),
                Ok(got) => {
                    if got != want {
                        fail(&mut f_ref, describe(&show(&got)));
                    }
                }
            }
        }
    }
    (n, f_ref, f_panic)
}

/// A history in which a conflicted event lies in the auth chain of a power event only BEHIND an unconflicted event (found by an
/// auditing sub-agent with a differential test): a server forks its own DAG - A re-sends her join twice concurrently (ma1,
/// ma2) - then changes the power levels on top of ma1 (pl1, unconflicted later on), B sets a topic after pl1, and A kicks C on
/// top of the merge of her two branches (state there: A -> ma2). Merging {A -> ma2, C -> kc} with {A -> ma1, C -> mc, topic}:
/// the specification puts ma1 into the power sort (it is in the auth chain of kc, via pl1, and in the conflicted set).
fn run_behind_unconflicted(vname: &'static str, rules: AuthorizationRules) -> (u64, Vec<Value>, Vec<Value>) {
    let (mut n, mut f_ref, mut f_panic) = (0u64, vec![], vec![]);
    let pl0 = pl_of(&[(A, 100), (B, 50)]);
    let pl1 = pl_of(&[(A, 100), (B, 50), (C, 0)]);
    let join = |name: &str| json!({"membership": "join", "displayname": name});
    let mk = |id: &str, sender: &str, ty: &str, sk: &str, content: Value, auth: &[&str], ts: u64, pl: Option<Pl>| MEv {
        id: id.to_owned(), sender: sender.to_owned(), ty: ty.to_owned(), state_key: sk.to_owned(), content, auth: auth.iter().map(|a| a.to_string()).collect(), prev: vec![], ts, pl,
    };
    for order in 0..2 {
        let evs = vec![
            mk("$1-create", A, "m.room.create", "", json!({"creator": A}), &[], 1, None),
            mk("$ma0", A, "m.room.member", A, json!({"membership": "join"}), &["$1-create"], 2, None),
            mk("$pl0", A, "m.room.power_levels", "", pl0.json(), &["$1-create", "$ma0"], 3, Some(pl0.clone())),
            mk("$jr", A, "m.room.join_rules", "", json!({"join_rule": "public"}), &["$1-create", "$pl0", "$ma0"], 4, None),
            mk("$mb", B, "m.room.member", B, json!({"membership": "join"}), &["$1-create", "$pl0", "$jr"], 5, None),
            mk("$mc", C, "m.room.member", C, json!({"membership": "join"}), &["$1-create", "$pl0", "$jr"], 6, None),
            mk("$ma1", A, "m.room.member", A, join("a1"), &["$1-create", "$pl0", "$ma0", "$jr"], 10, None),
            mk("$ma2", A, "m.room.member", A, join("a2"), &["$1-create", "$pl0", "$ma0", "$jr"], 20, None),
            mk("$pl1", A, "m.room.power_levels", "", pl1.json(), &["$1-create", "$pl0", "$ma1"], 11, Some(pl1.clone())),
            mk("$t", B, "m.room.topic", "", json!({"topic": "t"}), &["$1-create", "$pl1", "$mb"], 12, None),
            mk("$kc", A, "m.room.member", C, json!({"membership": "leave"}), &["$1-create", "$pl1", "$ma2", "$mc"], 30, None),
        ];
        let w = World { events: evs.into_iter().map(|e| (e.id.clone(), e)).collect() };
        let set = |ids: &[&str]| -> BTreeMap<Key, String> { ids.iter().map(|i| { let e = &w.events[*i]; ((e.ty.clone(), e.state_key.clone()), e.id.clone()) }).collect() };
        let set_a = set(&["$1-create", "$pl1", "$jr", "$mb", "$ma2", "$kc"]);
        let set_b = set(&["$1-create", "$pl1", "$jr", "$mb", "$ma1", "$mc", "$t"]);
        let tips = if order == 0 { vec![set_a, set_b] } else { vec![set_b, set_a] };
        let pdus: HashMap<OwnedEventId, Pdu> = w.events.values().map(|e| { let p = pdu_ts(&e.id, &e.sender, &e.ty, Some(&e.state_key), &e.content, &e.prev, &e.auth, "!r:s", e.ts); (p.event_id.clone(), p) }).collect();
        n += 1;
        let want = resolve_ref(&rules, &w, &tips);
        let describe = |got: &Value| {
            let events: Vec<Value> = w.events.values().map(|e| json!({"event_id": e.id, "type": e.ty, "state_key": e.state_key, "auth_events": e.auth, "origin_server_ts": e.ts})).collect();
            json!({"rules": vname, "history": "a conflicted event behind an unconflicted event in the auth chain of a power event", "events": events, "resolve_returns": got, "state_resolution_v2_gives": show(&want)})
        };
        match real_resolve(&rules, &pdus, &w, &tips) {
            Err(e) => fail(if e == "panic" { &mut f_panic } else { &mut f_ref }, describe(&json!(e))),
            Ok(got) => {
                if got != want {
                    fail(&mut f_ref, describe(&show(&got)));
                }
            }
        }
    }
    (n, f_ref, f_panic)
}

/// every DAG on up to 5 nodes (edges i -> j for j < i: j must come first), keys (power, ts) from a 2x2 domain
fn run_topo() -> (u64, Vec<Value>) {
    let (mut n, mut f) = (0u64, vec![]);
    let ids = ["$a", "$b", "$c", "$d", "$e"];
    for size in 1..=5usize {
        let pairs: Vec<(usize, usize)> = (0..size).flat_map(|i| (0..i).map(move |j| (i, j))).collect();
        for edges in 0u32..(1 << pairs.len()) {
            for keyvec in 0u32..(1 << (2 * size)).min(1 << 10) {
                // thin out the largest cases
                if size == 5 && (edges.wrapping_mul(31).wrapping_add(keyvec)) % 16 != 0 {
                    continue;
                }
                n += 1;
                let mut graph: HashMap<OwnedEventId, HashSet<OwnedEventId>> = HashMap::new();
                let oid = |i: usize| OwnedEventId::try_from(ids[i]).unwrap();
                for i in 0..size {
                    graph.entry(oid(i)).or_default();
                }
                for (bit, (i, j)) in pairs.iter().enumerate() {
                    if edges & (1 << bit) != 0 {
                        graph.get_mut(&oid(*i)).unwrap().insert(oid(*j));
                    }
                }
                let key = |i: usize| -> (i64, u64) { (((keyvec >> (2 * i)) & 1) as i64 * 50, ((keyvec >> (2 * i + 1)) & 1) as u64) };
                let nodes: BTreeSet<String> = (0..size).map(|i| ids[i].to_owned()).collect();
                let idx = |s: &str| ids.iter().position(|x| *x == s).unwrap();
                let want = topo(&nodes, &|nn| pairs.iter().enumerate().filter(|(bit, (i, _))| edges & (1 << bit) != 0 && ids[*i] == nn).map(|(_, (_, j))| ids[*j].to_owned()).collect(), &|nn| key(idx(nn)));
                let got = lexicographical_topological_sort(&graph, |id| {
                    let (p, t) = key(idx(id.as_str()));
                    Ok((js_int::Int::try_from(p).unwrap(), MilliSecondsSinceUnixEpoch(js_int::UInt::try_from(t).unwrap())))
                });
                let got: Option<Vec<String>> = got.ok().map(|v| v.into_iter().map(|x| x.to_string()).collect());
                if got.as_ref() != Some(&want) {
                    if f.len() < 20 {
                        f.push(json!({"nodes": size, "edges_dependent_on": pairs.iter().enumerate().filter(|(b, _)| edges & (1 << b) != 0).map(|(_, (i, j))| format!("{}->{}", ids[*i], ids[*j])).collect::<Vec<_>>(),
                            "keys_power_ts": (0..size).map(|i| key(i)).collect::<Vec<_>>(), "observed": got, "expected": want}));
                    }
                }
            }
        }
    }
    (n, f)
}

pub fn run(tier: &str) -> Report {
    let thorough = tier == "thorough";
    let versions: Vec<(&'static str, AuthorizationRules)> = if thorough {
        vec![("V1", AuthorizationRules::V1), ("V6", AuthorizationRules::V6), ("V10", AuthorizationRules::V10), ("V11", AuthorizationRules::V11)]
    } else {
        vec![("V6", AuthorizationRules::V6), ("V11", AuthorizationRules::V11)]
    };
    let handles: Vec<_> = versions.into_iter().map(|(vn, r)| std::thread::spawn(move || run_rules(vn, r, thorough))).collect();
    let early: Vec<_> = [("V1", AuthorizationRules::V1), ("V6", AuthorizationRules::V6), ("V11", AuthorizationRules::V11)].into_iter().map(|(vn, r)| std::thread::spawn(move || run_early(vn, r))).collect();
    let behind: Vec<_> = [("V6", AuthorizationRules::V6), ("V11", AuthorizationRules::V11)].into_iter().map(|(vn, r)| std::thread::spawn(move || run_behind_unconflicted(vn, r))).collect();
    let topo_h = std::thread::spawn(run_topo);
    let (mut n, mut f_ref, mut f_det, mut f_single, mut f_panic) = (0u64, vec![], vec![], vec![], vec![]);
    let (mut nontrivial, mut samples) = (0u64, vec![]);
    for h in handles {
        match h.join() {
            Ok((k, a, b, c, d, nt, sm)) => {
                n += k;
                nontrivial += nt;
                samples.extend(sm);
                for x in a { fail(&mut f_ref, x); }
                for x in b { fail(&mut f_det, x); }
                for x in c { fail(&mut f_single, x); }
                for x in d { fail(&mut f_panic, x); }
            }
            Err(_) => fail(&mut f_panic, json!({"observed": "enumeration thread panicked"})),
        }
    }
    let mut n_early = 0u64;
    for h in early {
        match h.join() {
            Ok((k, a, d)) => {
                n_early += k;
                for x in a { fail(&mut f_ref, x); }
                for x in d { fail(&mut f_panic, x); }
            }
            Err(_) => fail(&mut f_panic, json!({"observed": "enumeration thread (early forks) panicked"})),
        }
    }
    n += n_early;
    for h in behind {
        match h.join() {
            Ok((k, a, d)) => {
                n += k;
                for x in a { fail(&mut f_ref, x); }
                for x in d { fail(&mut f_panic, x); }
            }
            Err(_) => fail(&mut f_panic, json!({"observed": "enumeration thread (auth chain behind an unconflicted event) panicked"})),
        }
    }
    let (nt, f_topo) = topo_h.join().unwrap_or((0, vec![json!({"observed": "topological sort enumeration panicked"})]));
    *super::EXTRA.lock().unwrap() = Some((
        nontrivial,
        "cases are (authorization rules, fork shape, timestamp assignment) triples; each is generated once, so they are distinct; a case is non-trivial when the state maps at the fork tips differ (there is something to resolve)".to_owned(),
        samples,
    ));
    Report {
        bound: format!("{n} fork scenarios (base room + 2..3 forks of 1..2 events from a 17-event menu, each valid in its fork) x timestamp assignments, for {} authorization rule sets, of which {n_early} are early forks (8 shapes starting before the first power-levels event, so that conflicted events with and without a power-levels ancestor meet) x 3 timestamp assignments x 3 rule sets; {nt} DAGs with keys for the topological sort (all DAGs on <= 4 nodes, 1/16 of those on 5)", if thorough { 4 } else { 2 }),
        cases: n + nt,
        obligations: vec![
            ("resolved_state_is_the_state_resolution_v2_result", n, f_ref),
            ("resolution_is_independent_of_argument_order_hash_order_and_thread", n, f_det),
            ("a_single_or_repeated_state_set_is_returned_unchanged", n, f_single),
            ("topological_sort_is_the_specified_order", nt, f_topo),
            ("state_resolution_never_panics", n, f_panic),
        ],
    }
}
