//! C02/C03/C05 bounded stand-in: sign_json / hash_and_sign_event / verify_json / verify_event on the
//! real code with real Ed25519 keys (the `entry()` API with nested `&mut` borrows keeps sign_json and
//! hash_and_sign_event outside Verus).
//!
//! Space: room versions 1-11 x 6 event shapes x every single-field mutation from a fixed list
//! (stripped by redaction / kept by redaction / inside unsigned) x 2 signing entities x 2 key versions.
use std::collections::BTreeMap;

use ruma_common::{
    canonical_json::redact, serde::Base64, CanonicalJsonObject, CanonicalJsonValue, RoomVersionId,
};
use ruma_signatures::{hash_and_sign_event, sign_json, verify_event, verify_json, Ed25519KeyPair, PublicKeyMap, Verified};
use serde_json::{json, Value};

use super::Report;

fn keypair(version: &str) -> Ed25519KeyPair {
    let der = Ed25519KeyPair::generate().unwrap();
    Ed25519KeyPair::from_der(&der, version.to_owned()).unwrap()
}

fn obj(v: Value) -> CanonicalJsonObject {
    serde_json::from_value(v).unwrap()
}

fn add_key(map: &mut PublicKeyMap, entity: &str, kp: &Ed25519KeyPair) {
    map.entry(entity.to_owned()).or_default().insert(format!("ed25519:{}", kp.version()), Base64::new(kp.public_key().to_vec()));
}

fn fail(v: &mut Vec<Value>, x: Value) {
    if v.len() < 400 {
        v.push(x);
    }
}

fn events() -> Vec<(&'static str, Value)> {
    vec![
        ("message", json!({"type": "m.room.message", "room_id": "!r:a.org", "sender": "@u:a.org", "origin_server_ts": 1, "depth": 3,
            "prev_events": [], "auth_events": [], "content": {"body": "hello", "msgtype": "m.text"}, "unsigned": {"age": 1}, "extra": "x", "age_ts": 100, "origin": "a.org"})),
        ("member_join", json!({"type": "m.room.member", "room_id": "!r:a.org", "sender": "@u:a.org", "state_key": "@u:a.org", "origin_server_ts": 2,
            "depth": 4, "prev_events": [], "auth_events": [], "content": {"membership": "join", "displayname": "U"}, "unsigned": {"age": 1}})),
        ("power_levels", json!({"type": "m.room.power_levels", "room_id": "!r:a.org", "sender": "@u:a.org", "state_key": "", "origin_server_ts": 3,
            "depth": 5, "prev_events": [], "auth_events": [], "content": {"ban": 50, "users": {"@u:a.org": 100}, "notifications": {"room": 20}, "invite": 0},
            "unsigned": {}})),
        // an event that already carries hashes (built from a template / hashed before and edited since): the stale sha256 is
        // replaced, other entries of `hashes` stay
        ("message_with_stale_hashes", json!({"type": "m.room.message", "room_id": "!r:a.org", "sender": "@u:a.org", "origin_server_ts": 9, "depth": 3,
            "prev_events": [], "auth_events": [], "content": {"body": "edited", "msgtype": "m.text"}, "hashes": {"sha256": "c3RhbGUgaGFzaA", "md5": "kept"}})),
        // events that are not joins but carry the key of restricted joins: only joins need the authorising server's signature
        ("member_leave_with_authorising_user_key", json!({"type": "m.room.member", "room_id": "!r:a.org", "sender": "@u:a.org", "state_key": "@u:a.org", "origin_server_ts": 5,
            "depth": 6, "prev_events": [], "auth_events": [], "content": {"membership": "leave", "join_authorised_via_users_server": "@x:b.org"}})),
        ("message_with_authorising_user_key", json!({"type": "m.room.message", "room_id": "!r:a.org", "sender": "@u:a.org", "origin_server_ts": 6, "depth": 7,
            "prev_events": [], "auth_events": [], "content": {"body": "hello", "msgtype": "m.text", "join_authorised_via_users_server": "@x:b.org"}})),
        ("create", json!({"type": "m.room.create", "room_id": "!r:a.org", "sender": "@u:a.org", "state_key": "", "origin_server_ts": 4,
            "depth": 1, "prev_events": [], "auth_events": [], "content": {"creator": "@u:a.org", "room_version": "9", "x": 1}})),
    ]
}

pub fn run(_tier: &str) -> Report {
    let mut cases = 0u64;
    let mut f_roundtrip = vec![];
    let mut f_keeps = vec![];
    let mut f_unsigned = vec![];
    let mut f_all_entities = vec![];
    let mut f_event_all = vec![];
    let mut f_event_redacted = vec![];
    let mut f_event_stripped = vec![];
    let mut f_event_kept = vec![];
    let mut f_atomic = vec![];
    let mut f_atomic_ev = vec![];

    let a1 = keypair("1");
    let a2 = keypair("2");
    let b1 = keypair("b");

    // ---------------- sign_json / verify_json
    for (name, ev) in events() {
        cases += 1;
        let mut o = obj(ev.clone());
        let unsigned_before = o.get("unsigned").cloned();
        sign_json("a.org", &a1, &mut o).unwrap();
        sign_json("b.org", &b1, &mut o).unwrap();
        // the same entity signs again with another key version: earlier signatures stay
        sign_json("a.org", &a2, &mut o).unwrap();
        let sigs = o.get("signatures").and_then(|s| s.as_object()).cloned().unwrap_or_default();
        let a = sigs.get("a.org").and_then(|s| s.as_object()).cloned().unwrap_or_default();
        if !(a.contains_key("ed25519:1") && a.contains_key("ed25519:2") && sigs.contains_key("b.org")) {
            fail(&mut f_keeps, json!({"event": name, "why": "an earlier signature was lost", "signatures": serde_json::to_value(&sigs).unwrap()}));
        }
        if o.get("unsigned").cloned() != unsigned_before {
            fail(&mut f_unsigned, json!({"event": name, "why": "sign_json changed `unsigned`"}));
        }
        let mut keys = PublicKeyMap::new();
        add_key(&mut keys, "a.org", &a1);
        add_key(&mut keys, "a.org", &a2);
        add_key(&mut keys, "b.org", &b1);
        if verify_json(&keys, &o).is_err() {
            fail(&mut f_roundtrip, json!({"event": name, "why": "sign then verify failed"}));
        }
        // changes confined to unsigned do not matter
        let mut o2 = o.clone();
        o2.insert("unsigned".to_owned(), CanonicalJsonValue::Object(obj(json!({"whatever": [1, 2]}))));
        if verify_json(&keys, &o2).is_err() {
            fail(&mut f_unsigned, json!({"event": name, "why": "verify_json depends on `unsigned`"}));
        }
        // every entity named in `signatures` must verify: keys of b.org not supplied -> error
        let mut only_a = PublicKeyMap::new();
        add_key(&mut only_a, "a.org", &a1);
        add_key(&mut only_a, "a.org", &a2);
        if verify_json(&only_a, &o).is_ok() {
            fail(&mut f_all_entities, json!({"event": name, "why": "an entity in `signatures` without supplied keys was skipped"}));
        }
        // changed signed content -> error
        let mut o3 = o.clone();
        o3.insert("origin_server_ts".to_owned(), CanonicalJsonValue::Integer(99.into()));
        if verify_json(&keys, &o3).is_ok() {
            fail(&mut f_roundtrip, json!({"event": name, "why": "tampered content still verifies"}));
        }
        // every signature of an entity counts, whichever key id it is stored under: with the two signatures of a.org
        // exchanged (each is a well-formed signature, but made by the other key), or with only the first / only the last
        // one replaced, verification fails
        for swap in [("ed25519:1", "ed25519:2", false), ("ed25519:2", "ed25519:1", false), ("ed25519:1", "ed25519:2", true)] {
            let mut t = o.clone();
            if let Some(CanonicalJsonValue::Object(sigs)) = t.get_mut("signatures") {
                if let Some(CanonicalJsonValue::Object(set)) = sigs.get_mut("a.org") {
                    let (x, y) = (set.get(swap.0).cloned(), set.get(swap.1).cloned());
                    if let (Some(x), Some(y)) = (x, y) {
                        set.insert(swap.0.to_owned(), y.clone());
                        if swap.2 {
                            set.insert(swap.1.to_owned(), x);
                        }
                    }
                }
            }
            if verify_json(&keys, &t).is_ok() {
                fail(&mut f_roundtrip, json!({"event": name, "why": format!("the signature under {} was replaced by the one made with the other key of the entity{} and the object still verifies", swap.0, if swap.2 { " (and vice versa)" } else { "" })}));
            }
        }
        // a signature or a public key with extra bytes appended is not the signature / key: verification fails
        {
            let mut o5 = obj(ev.clone());
            sign_json("a.org", &a1, &mut o5).unwrap();
            let mut k5 = PublicKeyMap::new();
            add_key(&mut k5, "a.org", &a1);
            let mut long_sig = o5.clone();
            if let Some(CanonicalJsonValue::Object(sigs)) = long_sig.get_mut("signatures") {
                if let Some(CanonicalJsonValue::Object(set)) = sigs.get_mut("a.org") {
                    if let Some(CanonicalJsonValue::String(sv)) = set.get("ed25519:1").cloned() {
                        let mut bytes = Base64::<ruma_common::serde::base64::Standard, Vec<u8>>::parse(&sv).map(|b| b.into_inner()).unwrap_or_default();
                        bytes.push(0);
                        set.insert("ed25519:1".to_owned(), CanonicalJsonValue::String(Base64::<ruma_common::serde::base64::Standard, _>::new(bytes).encode()));
                    }
                }
            }
            if verify_json(&k5, &o5).is_err() {
                fail(&mut f_roundtrip, json!({"event": name, "why": "sign then verify failed (single signer)"}));
            }
            if verify_json(&k5, &long_sig).is_ok() {
                fail(&mut f_roundtrip, json!({"event": name, "why": "a signature with an extra byte appended still verifies"}));
            }
            let mut long_key = PublicKeyMap::new();
            let mut kb = a1.public_key().to_vec();
            kb.push(0);
            long_key.entry("a.org".to_owned()).or_default().insert("ed25519:1".to_owned(), Base64::new(kb));
            if verify_json(&long_key, &o5).is_ok() {
                fail(&mut f_roundtrip, json!({"event": name, "why": "a public key with an extra byte appended is accepted"}));
            }
        }
        // signing again with the same entity and key after the content changed (or over a bogus value under that key id)
        // stores the signature of the CURRENT content: the stored value is exactly sign(canonical JSON)
        for stale in [None, Some("AAAA")] {
            let mut o4 = o.clone();
            o4.insert("origin_server_ts".to_owned(), CanonicalJsonValue::Integer(77.into()));
            if let Some(bogus) = stale {
                if let Some(CanonicalJsonValue::Object(sigs)) = o4.get_mut("signatures") {
                    if let Some(CanonicalJsonValue::Object(set)) = sigs.get_mut("a.org") {
                        set.insert("ed25519:1".to_owned(), CanonicalJsonValue::String(bogus.to_owned()));
                    }
                }
            }
            sign_json("a.org", &a1, &mut o4).unwrap();
            sign_json("a.org", &a2, &mut o4).unwrap();
            sign_json("b.org", &b1, &mut o4).unwrap();
            let want = {
                use ruma_signatures::KeyPair;
                a1.sign(ruma_signatures::canonical_json(&o4).unwrap().as_bytes()).base64()
            };
            let stored = o4.get("signatures").and_then(|s| s.as_object()).and_then(|s| s.get("a.org")).and_then(|s| s.as_object())
                .and_then(|s| s.get("ed25519:1")).and_then(|s| s.as_str()).map(|s| s.to_owned());
            if stored.as_deref() != Some(want.as_str()) || verify_json(&keys, &o4).is_err() {
                fail(&mut f_roundtrip, json!({"event": name, "why": "signing again with the same key did not store the signature of the current content",
                    "stored": stored, "expected": want, "stale_value_before": stale}));
            }
        }
        // a signing call that reports an error leaves the object as it was
        for bad in [json!("str"), json!({"a.org": "not-an-object"})] {
            let mut e = obj(ev.clone());
            e.insert("signatures".to_owned(), serde_json::from_value(bad.clone()).unwrap());
            let before = e.clone();
            if sign_json("a.org", &a1, &mut e).is_err() && e != before {
                fail(&mut f_atomic, json!({"event": name, "signatures": bad, "why": "sign_json returned an error but changed the object",
                    "after": serde_json::to_value(&e).unwrap()}));
            }
        }
    }

    // ---------------- every key version: the version is free text, signing then verifying succeeds whatever characters it has,
    // and an invalid signature under any key id of an entity with a supplied key is never skipped
    for version in ["1", "a_b", "auto-2", "key.v2", "a+b/c", "é", "x y", "v:1"] {
        cases += 1;
        let kp = keypair(version);
        let (_, ev) = &events()[0];
        let mut o = obj(ev.clone());
        sign_json("a.org", &a1, &mut o).unwrap();
        if sign_json("a.org", &kp, &mut o).is_err() {
            fail(&mut f_roundtrip, json!({"key_version": version, "why": "sign_json failed"}));
            continue;
        }
        let mut keys = PublicKeyMap::new();
        add_key(&mut keys, "a.org", &a1);
        add_key(&mut keys, "a.org", &kp);
        let mut only_new = PublicKeyMap::new();
        add_key(&mut only_new, "a.org", &kp);
        let mut only_this = obj(ev.clone());
        sign_json("a.org", &kp, &mut only_this).unwrap();
        if verify_json(&keys, &o).is_err() || verify_json(&only_new, &only_this).is_err() {
            fail(&mut f_roundtrip, json!({"key_version": version, "why": "sign then verify with the matching public key failed"}));
        }
        // the signature stored under this key id is replaced by another valid-looking one (the signature made by the other key)
        let mut t = o.clone();
        if let Some(CanonicalJsonValue::Object(sigs)) = t.get_mut("signatures") {
            if let Some(CanonicalJsonValue::Object(set)) = sigs.get_mut("a.org") {
                match set.get("ed25519:1").cloned() {
                    Some(other) => {
                        set.insert(format!("ed25519:{version}"), other);
                    }
                    None => {
                        fail(&mut f_keeps, json!({"key_version": version, "why": "the earlier signature of the same entity under ed25519:1 was lost"}));
                        continue;
                    }
                }
            }
        }
        if version != "1" && verify_json(&keys, &t).is_ok() {
            fail(&mut f_roundtrip, json!({"key_version": version, "why": "an invalid signature under a key id whose public key was supplied is accepted"}));
        }
    }

    // ---------------- hash_and_sign_event / verify_event per room version
    let versions = [
        RoomVersionId::V1, RoomVersionId::V2, RoomVersionId::V3, RoomVersionId::V4, RoomVersionId::V5, RoomVersionId::V6, RoomVersionId::V7,
        RoomVersionId::V8, RoomVersionId::V9, RoomVersionId::V10, RoomVersionId::V11,
    ];
    for v in &versions {
        let rules = v.rules().unwrap();
        for (name, ev) in events() {
            cases += 1;
            let mut o = obj(ev.clone());
            if rules.signatures.check_event_id_server {
                o.insert("event_id".to_owned(), CanonicalJsonValue::String("$e:a.org".to_owned()));
            }
            hash_and_sign_event("a.org", &a1, &mut o, &rules.redaction).unwrap();
            let mut keys = PublicKeyMap::new();
            add_key(&mut keys, "a.org", &a1);
            let d = |why: &str| json!({"room_version": v.as_str(), "event": name, "why": why});
            match verify_event(&keys, &o, &rules) {
                Ok(Verified::All) => {}
                other => fail(&mut f_event_all, json!({"case": d("hash_and_sign then verify is not All"), "got": format!("{:?}", other)})),
            }
            // entries of `hashes` other than sha256 are kept
            if let Some(h0) = ev.get("hashes").and_then(|h| h.as_object()) {
                let h1 = o.get("hashes").and_then(|h| h.as_object()).cloned().unwrap_or_default();
                for (k, v) in h0 {
                    if k != "sha256" && h1.get(k).and_then(|x| x.as_str()) != v.as_str() {
                        fail(&mut f_event_all, json!({"case": d("an entry of `hashes` other than sha256 was lost"), "entry": k}));
                    }
                }
            }
            // several servers hash and sign one after the other: every signature stays and verifies (restricted joins and
            // room versions 1-2 need two signers)
            {
                let mut o3 = obj(ev.clone());
                if rules.signatures.check_event_id_server {
                    o3.insert("event_id".to_owned(), CanonicalJsonValue::String("$e:a.org".to_owned()));
                }
                hash_and_sign_event("b.org", &b1, &mut o3, &rules.redaction).unwrap();
                hash_and_sign_event("a.org", &a1, &mut o3, &rules.redaction).unwrap();
                let mut k3 = PublicKeyMap::new();
                add_key(&mut k3, "a.org", &a1);
                add_key(&mut k3, "b.org", &b1);
                let both = o3.get("signatures").and_then(|s| s.as_object()).map(|s| s.contains_key("a.org") && s.contains_key("b.org")).unwrap_or(false);
                if !both || !matches!(verify_event(&k3, &o3, &rules), Ok(Verified::All)) || verify_json(&k3, &redact(o3.clone(), &rules.redaction, None).unwrap()).is_err() {
                    fail(&mut f_event_all, d("after two servers hashed and signed in turn, a signature is missing or does not verify"));
                }
            }
            // a server that signed with two keys: a wrong signature under either key id makes verification fail
            {
                let mut o4 = obj(ev.clone());
                if rules.signatures.check_event_id_server {
                    o4.insert("event_id".to_owned(), CanonicalJsonValue::String("$e:a.org".to_owned()));
                }
                hash_and_sign_event("a.org", &a1, &mut o4, &rules.redaction).unwrap();
                hash_and_sign_event("a.org", &a2, &mut o4, &rules.redaction).unwrap();
                let mut k4 = PublicKeyMap::new();
                add_key(&mut k4, "a.org", &a1);
                add_key(&mut k4, "a.org", &a2);
                if !matches!(verify_event(&k4, &o4, &rules), Ok(Verified::All)) {
                    fail(&mut f_event_all, d("an event signed by one server with two keys does not verify"));
                }
                for (bad, other) in [("ed25519:1", "ed25519:2"), ("ed25519:2", "ed25519:1")] {
                    let mut t = o4.clone();
                    if let Some(CanonicalJsonValue::Object(sigs)) = t.get_mut("signatures") {
                        if let Some(CanonicalJsonValue::Object(set)) = sigs.get_mut("a.org") {
                            if let Some(y) = set.get(other).cloned() {
                                set.insert(bad.to_owned(), y);
                            }
                        }
                    }
                    if verify_event(&k4, &t, &rules).is_ok() {
                        fail(&mut f_event_kept, d(&format!("the signature under {bad} is the one made with the other key and the event still verifies")));
                    }
                }
            }
            // hashing and signing again after an edit gives All again
            {
                let mut o2 = o.clone();
                o2.insert("extra_after_first_signature".to_owned(), CanonicalJsonValue::Bool(true));
                hash_and_sign_event("a.org", &a1, &mut o2, &rules.redaction).unwrap();
                if !matches!(verify_event(&keys, &o2, &rules), Ok(Verified::All)) {
                    fail(&mut f_event_all, d("hash_and_sign again after an edit is not All (stale content hash kept?)"));
                }
            }
            // a redacted copy still has valid signatures
            let red = redact(o.clone(), &rules.redaction, None).unwrap();
            match verify_event(&keys, &red, &rules) {
                Ok(Verified::All) | Ok(Verified::Signatures) => {}
                other => fail(&mut f_event_redacted, json!({"case": d("redacted copy does not verify"), "got": format!("{:?}", other)})),
            }
            // unsigned changes nothing
            let mut u = o.clone();
            u.insert("unsigned".to_owned(), CanonicalJsonValue::Object(obj(json!({"x": 1}))));
            if format!("{:?}", verify_event(&keys, &u, &rules)) != format!("{:?}", verify_event(&keys, &o, &rules)) {
                fail(&mut f_unsigned, d("verify_event depends on `unsigned`"));
            }
            // ... however big it is (the size limit is about the event without `unsigned`)
            let mut ubig = o.clone();
            ubig.insert("unsigned".to_owned(), CanonicalJsonValue::Object(obj(json!({"prev_content": {"body": "a".repeat(70_000)}, "age": 1}))));
            if format!("{:?}", verify_event(&keys, &ubig, &rules)) != format!("{:?}", verify_event(&keys, &o, &rules)) {
                fail(&mut f_unsigned, d("verify_event depends on the size of `unsigned`"));
            }
            // changing a hashed field that redaction strips -> Signatures
            let mut stripped = o.clone();
            stripped.insert("x.not.kept".to_owned(), CanonicalJsonValue::Bool(true));
            match verify_event(&keys, &stripped, &rules) {
                Ok(Verified::Signatures) => {}
                other => fail(&mut f_event_stripped, json!({"case": d("adding a redaction-stripped field is not Signatures"), "got": format!("{:?}", other)})),
            }
            // changing a field that redaction keeps -> error
            let mut kept = o.clone();
            kept.insert("depth".to_owned(), CanonicalJsonValue::Integer(1234.into()));
            if verify_event(&keys, &kept, &rules).is_ok() {
                fail(&mut f_event_kept, d("changing a kept field still verifies"));
            }
            // every single-field mutation after signing: top-level keys and content keys replaced or removed. The expected
            // outcome follows from the statement: if the redacted form is unchanged the field was only hashed -> Signatures,
            // otherwise a signed field changed -> error.
            let red0 = redact(o.clone(), &rules.redaction, None).unwrap();
            let mut mutants: Vec<(String, CanonicalJsonObject)> = vec![];
            for k in o.keys().filter(|k| !matches!(k.as_str(), "signatures" | "unsigned" | "hashes" | "content")) {
                let mut m = o.clone();
                m.insert(k.clone(), CanonicalJsonValue::String("mutated".to_owned()));
                mutants.push((format!("{k} replaced"), m));
                let mut m = o.clone();
                m.remove(k);
                mutants.push((format!("{k} removed"), m));
            }
            if let Some(CanonicalJsonValue::Object(c)) = o.get("content") {
                for k in c.keys() {
                    let mut c2 = c.clone();
                    c2.insert(k.clone(), CanonicalJsonValue::String("mutated".to_owned()));
                    let mut m = o.clone();
                    m.insert("content".to_owned(), CanonicalJsonValue::Object(c2));
                    mutants.push((format!("content.{k} replaced"), m));
                    let mut c2 = c.clone();
                    c2.remove(k);
                    let mut m = o.clone();
                    m.insert("content".to_owned(), CanonicalJsonValue::Object(c2));
                    mutants.push((format!("content.{k} removed"), m));
                }
            }
            for (what, m) in mutants {
                cases += 1;
                let got = verify_event(&keys, &m, &rules);
                match redact(m.clone(), &rules.redaction, None) {
                    Ok(r) if r == red0 => {
                        if !matches!(got, Ok(Verified::Signatures)) {
                            fail(&mut f_event_stripped, json!({"case": d(&format!("{what}: hashed field that redaction strips")), "got": format!("{:?}", got), "expected": "Ok(Signatures)"}));
                        }
                    }
                    _ => {
                        if got.is_ok() {
                            fail(&mut f_event_kept, json!({"case": d(&format!("{what}: field that redaction keeps")), "got": format!("{:?}", got), "expected": "Err"}));
                        }
                    }
                }
            }
            // missing required signer
            let empty = PublicKeyMap::new();
            if verify_event(&empty, &o, &rules).is_ok() {
                fail(&mut f_event_kept, d("verification without the sender's server keys succeeds"));
            }
        }
    }
    // ---------------- required signers: the sender's server unless the event is an invite created from a third-party invite,
    // the event ID's server in room versions 1-2, the authorising user's server for restricted JOINS from version 8
    let mut f_signers = vec![];
    let c1 = keypair("c");
    for v in &versions {
        let rules = v.rules().unwrap();
        let old_ids = rules.signatures.check_event_id_server;
        let restricted = rules.signatures.check_join_authorised_via_users_server;
        let mut all_keys = PublicKeyMap::new();
        add_key(&mut all_keys, "a.org", &a1);
        add_key(&mut all_keys, "b.org", &b1);
        add_key(&mut all_keys, "c.org", &c1);
        let signed = |ev: &Value, event_id: &str, signers: &[&str]| -> CanonicalJsonObject {
            let mut o = obj(ev.clone());
            if old_ids {
                o.insert("event_id".to_owned(), CanonicalJsonValue::String(event_id.to_owned()));
            }
            for s in signers {
                let kp = match *s { "a.org" => &a1, "b.org" => &b1, _ => &c1 };
                hash_and_sign_event(s, kp, &mut o, &rules.redaction).unwrap();
            }
            o
        };
        let join = json!({"type": "m.room.member", "room_id": "!r:a.org", "sender": "@u:a.org", "state_key": "@u:a.org", "origin_server_ts": 2, "depth": 4,
            "prev_events": [], "auth_events": [], "content": {"membership": "join", "join_authorised_via_users_server": "@x:b.org"}});
        let tpi = json!({"type": "m.room.member", "room_id": "!r:a.org", "sender": "@u:a.org", "state_key": "@i:b.org", "origin_server_ts": 2, "depth": 4,
            "prev_events": [], "auth_events": [], "content": {"membership": "invite", "third_party_invite": {"display_name": "i", "signed": {"mxid": "@i:b.org", "token": "t", "signatures": {}}}}});
        let plain_invite = json!({"type": "m.room.member", "room_id": "!r:a.org", "sender": "@u:a.org", "state_key": "@i:b.org", "origin_server_ts": 2, "depth": 4,
            "prev_events": [], "auth_events": [], "content": {"membership": "invite"}});
        let msg = events()[0].1.clone();
        // (event, event ID in versions 1-2, signers, whether the signer set is sufficient)
        let table: Vec<(&str, &Value, &str, Vec<&str>, bool)> = vec![
            ("restricted join signed by the sender's and the authorising server", &join, "$e:a.org", vec!["a.org", "b.org"], true),
            ("restricted join signed by the sender's server only", &join, "$e:a.org", vec!["a.org"], !restricted),
            ("restricted join signed by the authorising server only", &join, "$e:a.org", vec!["b.org"], false),
            ("message signed by the sender's server, event ID of another server", &msg, "$e:c.org", vec!["a.org"], !old_ids),
            ("message signed by the sender's and the event ID's server", &msg, "$e:c.org", vec!["a.org", "c.org"], true),
            ("message signed by another server only", &msg, "$e:a.org", vec!["b.org"], false),
            ("invite from a third-party invite signed by the invited user's server only", &tpi, "$e:b.org", vec!["b.org"], true),
            ("ordinary invite signed by the invited user's server only", &plain_invite, "$e:b.org", vec!["b.org"], false),
        ];
        for (what, ev, event_id, signers, sufficient) in table {
            cases += 1;
            let o = signed(ev, event_id, &signers);
            let got = verify_event(&all_keys, &o, &rules);
            if matches!(got, Ok(Verified::All)) != sufficient {
                fail(&mut f_signers, json!({"room_version": v.as_str(), "case": what, "signers": signers, "expected": if sufficient { "Ok(All)" } else { "Err" }, "got": format!("{:?}", got),
                    "event": serde_json::to_value(&o).unwrap()}));
            }
        }
    }
    // ---------------- a signing call that reports an error leaves the object as it was: hash_and_sign_event
    for v in &versions {
        let rules = v.rules().unwrap();
        for (name, ev) in events() {
            let mut bads: Vec<(&str, CanonicalJsonObject)> = vec![];
            for (what, key, val) in [("signatures is a string", "signatures", json!("str")), ("signatures of the entity is a string", "signatures", json!({"a.org": "not-an-object"})),
                ("hashes is a string", "hashes", json!("str")), ("content is a string", "content", json!("str")), ("type is a number", "type", json!(1))] {
                let mut e = obj(ev.clone());
                e.insert(key.to_owned(), serde_json::from_value(val).unwrap());
                bads.push((what, e));
            }
            let mut e = obj(ev.clone());
            e.remove("type");
            bads.push(("type is missing", e));
            for (what, mut e) in bads {
                cases += 1;
                let before = e.clone();
                if hash_and_sign_event("a.org", &a1, &mut e, &rules.redaction).is_err() && e != before {
                    fail(&mut f_atomic_ev, json!({"room_version": v.as_str(), "event": name, "malformed": what, "why": "hash_and_sign_event returned an error but changed the object",
                        "before": serde_json::to_value(&before).unwrap(), "after": serde_json::to_value(&e).unwrap()}));
                }
            }
        }
    }
    let _ = BTreeMap::<u8, u8>::new();
    Report {
        bound: "7 event shapes (incl. non-join events carrying join_authorised_via_users_server) x room versions 1-11 x every top-level and content key replaced or removed after signing (plus one added field, unsigned) x 2 entities; sign_json with 8 key-version spellings incl. non-alphanumeric; required signers: 8 (event, signer set) rows x room versions 1-11; fresh random Ed25519 keys".to_owned(),
        cases,
        obligations: vec![
            ("sign_then_verify_succeeds_and_tampering_fails", cases, f_roundtrip),
            ("sign_json_keeps_earlier_signatures", cases, f_keeps),
            ("unsigned_is_irrelevant_and_untouched", cases, f_unsigned),
            ("verify_json_checks_every_named_entity", cases, f_all_entities),
            ("sign_json_error_leaves_object_unchanged", cases, f_atomic),
            ("hash_and_sign_event_error_leaves_object_unchanged", cases, f_atomic_ev),
            ("event_hash_and_sign_then_verify_is_all", cases, f_event_all),
            ("event_redacted_copy_keeps_valid_signatures", cases, f_event_redacted),
            ("event_stripped_field_change_gives_signatures_only", cases, f_event_stripped),
            ("event_kept_field_change_or_missing_signer_fails", cases, f_event_kept),
            ("event_required_signers_are_the_ones_the_room_version_demands", cases, f_signers),
        ],
    }
}
