//! C01 bounded stand-in: canonical JSON on the real code (serde_json's parser / compact serializer and
//! BTreeMap<String, _> ordering are dependencies behind serde plumbing that neither verifier can ingest).
//!
//! For every JSON *value* of a stated finite space the check renders several *texts* of it (key orders,
//! whitespace, escape spellings, duplicate keys), feeds each to the real entry points
//!   serde_json::from_str::<CanonicalJsonValue>, to_canonical_value(serde_json::Value), Display / to_string,
//!   ruma_signatures::canonical_json (objects)
//! and compares the output bytes with an oracle serializer written from the Matrix specification
//! (keys sorted by code point at every depth, no whitespace, escapes only for `"`, `\` and U+0000..U+001F using
//! \b \f \n \r \t where they exist and \u00XX otherwise, everything else as literal UTF-8, integers only).
//!
//! Space: strings = all sequences of length 0..2 over 15 characters (ASCII, quote, backslash, slash, U+0000, U+0001,
//! U+0008, U+000C, LF, U+001F, DEL, U+0080, e-acute, U+2028, U+1F600); integers at 0, +-1 and around +-2^53;
//! arrays of <= 2 elements and objects of <= 2 entries (both key orders, nested once) over reduced sets;
//! non-representable numbers: fractions, exponents, -0 (as -0.0), integers beyond +-(2^53-1).
use ruma_common::{canonical_json::to_canonical_value, CanonicalJsonObject, CanonicalJsonValue};
use serde_json::{json, Value};

use super::Report;

#[derive(Clone, Debug, PartialEq)]
enum J {
    Null,
    Bool(bool),
    Int(i64),
    Str(String),
    Arr(Vec<J>),
    Obj(Vec<(String, J)>), // in text order; may contain duplicate keys (last wins)
}

fn fail(v: &mut Vec<Value>, x: Value) {
    if v.len() < 30 {
        v.push(x);
    }
}

fn oracle_str(s: &str, out: &mut String) {
    out.push('"');
    for c in s.chars() {
        match c {
            '"' => out.push_str("\\\""),
            '\\' => out.push_str("\\\\"),
            '\u{8}' => out.push_str("\\b"),
            '\u{c}' => out.push_str("\\f"),
            '\n' => out.push_str("\\n"),
            '\r' => out.push_str("\\r"),
            '\t' => out.push_str("\\t"),
            c if (c as u32) < 0x20 => out.push_str(&format!("\\u{:04x}", c as u32)),
            c => out.push(c),
        }
    }
    out.push('"');
}

/// the specification's canonical form
fn oracle(j: &J, out: &mut String) {
    match j {
        J::Null => out.push_str("null"),
        J::Bool(b) => out.push_str(if *b { "true" } else { "false" }),
        J::Int(i) => out.push_str(&i.to_string()),
        J::Str(s) => oracle_str(s, out),
        J::Arr(a) => {
            out.push('[');
            for (i, x) in a.iter().enumerate() {
                if i > 0 {
                    out.push(',');
                }
                oracle(x, out);
            }
            out.push(']');
        }
        J::Obj(o) => {
            // last duplicate wins, keys by code point (= by UTF-8 bytes)
            let mut m: Vec<(String, J)> = vec![];
            for (k, v) in o {
                if let Some(e) = m.iter_mut().find(|(k2, _)| k2 == k) {
                    e.1 = v.clone();
                } else {
                    m.push((k.clone(), v.clone()));
                }
            }
            m.sort_by(|a, b| a.0.chars().cmp(b.0.chars()));
            out.push('{');
            for (i, (k, v)) in m.iter().enumerate() {
                if i > 0 {
                    out.push(',');
                }
                oracle_str(k, out);
                out.push(':');
                oracle(v, out);
            }
            out.push('}');
        }
    }
}

/// a JSON text of `j`; style 0: compact literal, 1: whitespace + every char \uXXXX-escaped (surrogate pairs for astral),
/// 2: whitespace, short escapes and `\/`
fn render_str(s: &str, style: u8, out: &mut String) {
    out.push('"');
    for c in s.chars() {
        match style {
            1 => {
                let mut buf = [0u16; 2];
                for u in c.encode_utf16(&mut buf) {
                    out.push_str(&format!("\\u{:04X}", u));
                }
            }
            _ => match c {
                '"' => out.push_str("\\\""),
                '\\' => out.push_str("\\\\"),
                '/' if style == 2 => out.push_str("\\/"),
                '\u{8}' => out.push_str("\\b"),
                '\u{c}' => out.push_str("\\f"),
                '\n' => out.push_str("\\n"),
                '\r' => out.push_str("\\r"),
                '\t' => out.push_str("\\t"),
                c if (c as u32) < 0x20 => out.push_str(&format!("\\u{:04x}", c as u32)),
                c => out.push(c),
            },
        }
    }
    out.push('"');
}

fn render(j: &J, style: u8, reverse: bool, out: &mut String) {
    let ws = if style == 0 { "" } else { " \n\t" };
    match j {
        J::Null => out.push_str("null"),
        J::Bool(b) => out.push_str(if *b { "true" } else { "false" }),
        J::Int(i) => out.push_str(&i.to_string()),
        J::Str(s) => render_str(s, style, out),
        J::Arr(a) => {
            out.push('[');
            out.push_str(ws);
            for (i, x) in a.iter().enumerate() {
                if i > 0 {
                    out.push(',');
                    out.push_str(ws);
                }
                render(x, style, reverse, out);
            }
            out.push_str(ws);
            out.push(']');
        }
        J::Obj(o) => {
            out.push('{');
            out.push_str(ws);
            let has_dup = (0..o.len()).any(|i| (0..i).any(|k| o[k].0 == o[i].0));
            let items: Vec<&(String, J)> = if reverse && !has_dup { o.iter().rev().collect() } else { o.iter().collect() };
            for (i, (k, v)) in items.into_iter().enumerate() {
                if i > 0 {
                    out.push(',');
                    out.push_str(ws);
                }
                render_str(k, style, out);
                out.push_str(ws);
                out.push(':');
                out.push_str(ws);
                render(v, style, reverse, out);
            }
            out.push_str(ws);
            out.push('}');
        }
    }
}

const MAXI: i64 = 9007199254740991;

pub fn run(tier: &str) -> Report {
    let thorough = tier == "thorough";
    let chars = ['a', '"', '\\', '/', '\u{0}', '\u{1}', '\u{8}', '\u{c}', '\n', '\u{1f}', '\u{7f}', '\u{80}', '\u{e9}', '\u{2028}', '\u{1F600}'];
    let mut strs: Vec<String> = vec![String::new()];
    for a in chars {
        strs.push(a.to_string());
        for b in chars {
            strs.push(format!("{a}{b}"));
            if thorough {
                for c in chars {
                    strs.push(format!("{a}{b}{c}"));
                }
            }
        }
    }
    let ints = [0, 1, -1, 42, MAXI, -MAXI, MAXI - 1, -MAXI + 1];
    let mut scalars: Vec<J> = vec![J::Null, J::Bool(true), J::Bool(false)];
    scalars.extend(ints.iter().map(|i| J::Int(*i)));
    scalars.extend(strs.iter().cloned().map(J::Str));
    // reduced sets for the compound shapes
    let small: Vec<J> = vec![J::Null, J::Bool(false), J::Int(-1), J::Int(MAXI), J::Str("".into()), J::Str("\u{1}\u{e9}".into()), J::Str("\"\\".into())];
    let keys: Vec<String> =
        ["", "a", "b", "aa", "B", "\u{e9}", "\u{1F600}", "\u{ff5e}", "\u{1}", "\"", "\\", "a\u{0}", "\u{7f}"].iter().map(|s| s.to_string()).collect();
    let mut values: Vec<J> = scalars.clone();
    values.push(J::Arr(vec![]));
    values.push(J::Obj(vec![]));
    for a in &small {
        values.push(J::Arr(vec![a.clone()]));
        for b in &small {
            values.push(J::Arr(vec![a.clone(), b.clone()]));
        }
    }
    for (i, k1) in keys.iter().enumerate() {
        for v1 in &small {
            values.push(J::Obj(vec![(k1.clone(), v1.clone())]));
        }
        for k2 in keys.iter().skip(i + 1) {
            values.push(J::Obj(vec![(k1.clone(), J::Int(1)), (k2.clone(), J::Str("x".into()))]));
            // nested once, inner keys in the "wrong" order too
            values.push(J::Obj(vec![
                (k2.clone(), J::Obj(vec![(k2.clone(), J::Null), (k1.clone(), J::Arr(vec![J::Obj(vec![(k2.clone(), J::Int(0)), (k1.clone(), J::Int(1))])]))])),
                (k1.clone(), J::Arr(vec![J::Str(k2.clone())])),
            ]));
        }
        // duplicate keys: last one wins, whatever the values
        values.push(J::Obj(vec![(k1.clone(), J::Int(1)), (k1.clone(), J::Int(2))]));
        values.push(J::Obj(vec![(k1.clone(), J::Int(2)), ("z".into(), J::Null), (k1.clone(), J::Str("d".into()))]));
    }

    let (mut n, mut f_bytes, mut f_indep, mut f_back, mut f_reject, mut f_panic) = (0u64, vec![], vec![], vec![], vec![], vec![]);
    for j in &values {
        let mut want = String::new();
        oracle(j, &mut want);
        let mut outputs: Vec<(String, String)> = vec![];
        for (style, reverse) in [(0u8, false), (1, false), (2, true), (0, true)] {
            n += 1;
            let mut text = String::new();
            render(j, style, reverse, &mut text);
            let r = std::panic::catch_unwind(|| -> Result<(String, String, String, Option<String>, bool), String> {
                let v: CanonicalJsonValue = serde_json::from_str(&text).map_err(|e| format!("from_str::<CanonicalJsonValue>: {e}"))?;
                let disp = v.to_string();
                // the canonical text does not depend on how Display is asked for it (width, fill, alignment, precision, `#`)
                for other in [format!("{v:80}"), format!("{v:>7}"), format!("{v:*^9}"), format!("{v:.3}"), format!("{v:#}"), format!("{v:08.1}")] {
                    if other != disp {
                        return Err(format!("Display with formatting parameters gives {other:?}, to_string() gives {disp:?}"));
                    }
                }
                let ser = serde_json::to_string(&v).map_err(|e| e.to_string())?;
                let generic: Value = serde_json::from_str(&text).map_err(|e| format!("from_str::<Value>: {e}"))?;
                let via_value = to_canonical_value(&generic).map_err(|e| format!("to_canonical_value: {e}"))?.to_string();
                let sig = match &v {
                    CanonicalJsonValue::Object(o) => Some(ruma_signatures::canonical_json(o).map_err(|e| format!("canonical_json: {e}"))?),
                    _ => None,
                };
                // parse the canonical text back
                let back: CanonicalJsonValue = serde_json::from_str(&disp).map_err(|e| format!("parse back: {e}"))?;
                Ok((disp, ser, via_value, sig, back == v))
            });
            match r {
                Err(_) => fail(&mut f_panic, json!({"text": text, "observed": "panic"})),
                Ok(Err(e)) => fail(&mut f_bytes, json!({"text": text, "observed": e, "expected": want})),
                Ok(Ok((disp, ser, via_value, sig, back_eq))) => {
                    if disp != want || ser != want || via_value != want {
                        fail(&mut f_bytes, json!({"text": text, "display": disp, "serialize": ser, "to_canonical_value": via_value, "expected": want}));
                    }
                    if let Some(s) = sig {
                        // ruma_signatures::canonical_json drops `signatures` and `unsigned`; the key set here has neither
                        if s != want {
                            fail(&mut f_bytes, json!({"text": text, "ruma_signatures::canonical_json": s, "expected": want}));
                        }
                    }
                    if !back_eq {
                        fail(&mut f_back, json!({"text": text, "canonical": disp, "observed": "parsing the canonical text back gives a different value"}));
                    }
                    outputs.push((text, disp));
                }
            }
        }
        if let Some((t0, d0)) = outputs.first() {
            for (t, d) in &outputs[1..] {
                if d != d0 {
                    fail(&mut f_indep, json!({"text_a": t0, "canonical_a": d0, "text_b": t, "canonical_b": d}));
                }
            }
        }
    }
    // non-representable numbers must be rejected at every depth, never altered
    let bad = ["-0", "1.5", "1e2", "1E0", "-0.0", "0.0", "1.0", "9007199254740992", "-9007199254740992", "9223372036854775807", "18446744073709551615", "1e400", "-1e-400", "123456789012345678901234567890"];
    let mut nr = 0u64;
    for b in bad {
        for ctx in ["@", "[@]", "{\"a\":@}", "{\"a\":[1,{\"b\":@}]}"] {
            nr += 1;
            let text = ctx.replace('@', b);
            let r = std::panic::catch_unwind(|| {
                let direct = serde_json::from_str::<CanonicalJsonValue>(&text).map(|v| v.to_string());
                let via = serde_json::from_str::<Value>(&text).ok().map(|g| to_canonical_value(&g).map(|v| v.to_string()));
                (direct, via)
            });
            match r {
                Err(_) => fail(&mut f_panic, json!({"text": text, "observed": "panic"})),
                Ok((direct, via)) => {
                    if let Ok(s) = direct {
                        fail(&mut f_reject, json!({"text": text, "entry": "from_str::<CanonicalJsonValue>", "observed": format!("accepted as {s}")}));
                    }
                    if let Some(Ok(s)) = via {
                        fail(&mut f_reject, json!({"text": text, "entry": "to_canonical_value", "observed": format!("accepted as {s}")}));
                    }
                }
            }
        }
    }
    // "-0" is an integer token: representable as 0 only if it is not silently turned into something else
    let _ = CanonicalJsonObject::new();
    Report {
        bound: format!(
            "{} values ({} strings = all of length 0..2 (thorough tier: 0..3) over 15 characters incl. controls / DEL / astral, 8 integers around 0 and +-(2^53-1), arrays <= 2, objects <= 2 entries over 13 keys incl. duplicates, nested once) x 4 text spellings (key order, whitespace, \\uXXXX / short / \\/ escapes); {} non-representable number texts",
            values.len(),
            strs.len(),
            nr
        ),
        cases: n + nr,
        obligations: vec![
            ("canonical_bytes_are_the_specified_encoding", n, f_bytes),
            ("canonical_bytes_independent_of_key_order_whitespace_escapes", values.len() as u64, f_indep),
            ("canonical_text_parses_back_to_the_same_value", n, f_back),
            ("non_representable_numbers_rejected_at_every_depth", nr, f_reject),
            ("canonical_json_entry_points_never_panic", n + nr, f_panic),
        ],
    }
}
