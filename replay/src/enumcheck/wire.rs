//! C16 bounded stand-in: the macro-generated request / response (de)serializers of `ruma_common::api` (`#[request]`,
//! `#[response]`, `metadata!`) on synthetic endpoints that cover the field-attribute kinds (path, query, header, JSON
//! body fields, optional fields, multi-valued query, newtype body, raw body, status override): value -> HTTP message
//! -> value round trips after standard path routing and percent-decoding, and identical re-encoding.
//! The code under test is proc-macro output over serde / http / percent-encoding: outside both verifiers.
//!
//! Space: every triple of an 11-string list (with '/', '%', '?', '#', '+', '&', '=', space, non-ASCII, astral, empty)
//! for (path parameter, query parameter, body field), optional fields present/absent, query lists of 0..2 values,
//! 3 supported-version sets; responses with every string as body / header value where the header grammar allows it.
#![allow(clippy::exhaustive_structs)]
use ruma_common::api::{IncomingRequest, IncomingResponse, MatrixVersion, OutgoingRequest, OutgoingResponse, SendAccessToken};
use serde_json::{json, Value};

use super::Report;

pub mod e1 {
    use http::header::CONTENT_TYPE;
    use ruma_common::{
        api::{request, response, Metadata},
        metadata, OwnedUserId,
    };

    const METADATA: Metadata = metadata! {
        method: POST,
        rate_limited: false,
        authentication: AccessToken,
        history: {
            unstable => "/_matrix/unstable/foo/:bar/:user",
            1.1 => "/_matrix/v1/foo/:bar/:user",
            1.3 => "/_matrix/v3/foo/:bar/:user",
        }
    };

    #[request]
    #[derive(PartialEq)]
    pub struct Request {
        pub hello: String,
        #[serde(skip_serializing_if = "Option::is_none")]
        pub opt: Option<String>,
        #[ruma_api(header = CONTENT_TYPE)]
        pub world: String,
        #[ruma_api(query)]
        pub q1: String,
        #[ruma_api(query)]
        #[serde(skip_serializing_if = "Option::is_none")]
        pub q2: Option<u32>,
        #[ruma_api(query)]
        #[serde(default, skip_serializing_if = "Vec::is_empty")]
        pub multi: Vec<String>,
        #[ruma_api(path)]
        pub bar: String,
        #[ruma_api(path)]
        pub user: OwnedUserId,
    }

    #[response]
    #[derive(PartialEq)]
    pub struct Response {
        pub hello: String,
        #[ruma_api(header = CONTENT_TYPE)]
        pub world: String,
        #[serde(skip_serializing_if = "Option::is_none")]
        pub optional_flag: Option<bool>,
    }
}

pub mod e2 {
    use http::header::LOCATION;
    use ruma_common::{
        api::{request, response, Metadata},
        metadata,
    };

    const METADATA: Metadata = metadata! {
        method: GET,
        rate_limited: false,
        authentication: None,
        history: {
            1.0 => "/_matrix/v1/redirect/:id",
        }
    };

    #[request]
    #[derive(PartialEq)]
    pub struct Request {
        #[ruma_api(path)]
        pub id: String,
        #[ruma_api(query)]
        #[serde(skip_serializing_if = "Option::is_none")]
        pub back: Option<String>,
    }

    /// a success response with a non-2xx status (as `sso_login` has)
    #[response(status = FOUND)]
    #[derive(PartialEq)]
    pub struct Response {
        #[ruma_api(header = LOCATION)]
        pub location: Option<String>,
    }
}

pub mod e3 {
    use ruma_common::{
        api::{request, response, Metadata},
        metadata,
    };

    #[derive(Clone, Debug, PartialEq, serde::Deserialize, serde::Serialize)]
    pub struct Thing {
        pub a_field: String,
    }

    const METADATA: Metadata = metadata! {
        method: PUT,
        rate_limited: false,
        authentication: None,
        history: {
            unstable => "/_matrix/unstable/things",
        }
    };

    #[request]
    #[derive(PartialEq)]
    pub struct Request {
        #[ruma_api(body)]
        pub things: Vec<Thing>,
    }

    #[response]
    #[derive(PartialEq)]
    pub struct Response {
        #[ruma_api(raw_body)]
        pub file: Vec<u8>,
    }
}

fn fail(v: &mut Vec<Value>, x: Value) {
    if v.len() < 25 {
        v.push(x);
    }
}

fn pct_decode(s: &str) -> String {
    let b = s.as_bytes();
    let mut out = vec![];
    let mut i = 0;
    while i < b.len() {
        if b[i] == b'%' && i + 2 < b.len() + 1 && s.is_char_boundary(i + 1) && s.is_char_boundary(i + 3) {
            if let Ok(v) = u8::from_str_radix(&s[i + 1..i + 3], 16) {
                out.push(v);
                i += 3;
                continue;
            }
        }
        out.push(b[i]);
        i += 1;
    }
    String::from_utf8_lossy(&out).into_owned()
}

/// standard routing: match the path against the template segment by segment, percent-decoding the parameters
fn route(path: &str, template: &str) -> Option<Vec<String>> {
    let p: Vec<&str> = path.split('/').collect();
    let t: Vec<&str> = template.split('/').collect();
    if p.len() != t.len() {
        return None;
    }
    let mut args = vec![];
    for (a, b) in p.iter().zip(t.iter()) {
        if b.starts_with(':') {
            args.push(pct_decode(a));
        } else if a != b {
            return None;
        }
    }
    Some(args)
}

fn msg(r: &http::Request<Vec<u8>>) -> Value {
    let mut h: Vec<String> = r.headers().iter().map(|(k, v)| format!("{k}: {}", String::from_utf8_lossy(v.as_bytes()))).collect();
    h.sort();
    json!({"method": r.method().as_str(), "uri": r.uri().to_string(), "headers": h, "body": String::from_utf8_lossy(r.body())})
}
fn rmsg(r: &http::Response<Vec<u8>>) -> Value {
    let mut h: Vec<String> = r.headers().iter().map(|(k, v)| format!("{k}: {}", String::from_utf8_lossy(v.as_bytes()))).collect();
    h.sort();
    json!({"status": r.status().as_u16(), "headers": h, "body": String::from_utf8_lossy(r.body())})
}

pub fn run(_tier: &str) -> Report {
    let strs = ["", "a", "a/b", "a%2Fb", "a?b#c", "a+b c", "a&b=c", "\u{e9}", "%", "100%", "\u{1F600}"];
    let header_ok = |s: &str| s.bytes().all(|b| (32..127).contains(&b));
    let versions: [&[MatrixVersion]; 3] = [&[MatrixVersion::V1_0], &[MatrixVersion::V1_1, MatrixVersion::V1_2], &[MatrixVersion::V1_1, MatrixVersion::V1_5]];
    let templates = ["/_matrix/unstable/foo/:bar/:user", "/_matrix/v1/foo/:bar/:user", "/_matrix/v3/foo/:bar/:user"];
    let (mut n, mut f_req, mut f_res, mut f_meta, mut f_panic) = (0u64, vec![], vec![], vec![], vec![]);
    // ---- requests of e1
    for bar in strs {
        for q1 in strs {
            for hello in strs {
                for (vi, vs) in versions.iter().enumerate() {
                    for (opt, q2, multi) in [(None, None, vec![]), (Some(hello.to_owned()), Some(7u32), vec![q1.to_owned()]), (Some(String::new()), Some(0), vec![bar.to_owned(), q1.to_owned()])] {
                        n += 1;
                        let req = e1::Request {
                            hello: hello.to_owned(), opt, world: "application/json".to_owned(), q1: q1.to_owned(), q2, multi,
                            bar: bar.to_owned(), user: ruma_common::OwnedUserId::try_from("@u/x:s.org").unwrap(),
                        };
                        let r = std::panic::catch_unwind(|| -> Result<(), Value> {
                            let http_req = req.clone().try_into_http_request::<Vec<u8>>("https://h.tld", SendAccessToken::IfRequired("tok"), vs)
                                .map_err(|e| json!({"stage": "encode", "error": e.to_string()}))?;
                            let m1 = msg(&http_req);
                            // method / auth header / path as the metadata prescribes for the supported versions
                            if http_req.method() != http::Method::POST
                                || http_req.headers().get(http::header::AUTHORIZATION).map(|v| v.as_bytes()) != Some(b"Bearer tok")
                            {
                                return Err(json!({"stage": "metadata", "message": m1}));
                            }
                            let path = http_req.uri().path().to_owned();
                            let args = route(&path, templates[vi]).ok_or_else(|| json!({"stage": "metadata", "why": "path does not match the template selected for the supported versions", "template": templates[vi], "message": m1}))?;
                            let back = e1::Request::try_from_http_request(http_req, &args).map_err(|e| json!({"stage": "decode", "error": e.to_string(), "message": m1, "path_args": args}))?;
                            if back != req {
                                return Err(json!({"stage": "compare", "why": "decoded request differs", "message": m1, "decoded": format!("{back:?}")}));
                            }
                            let again = back.try_into_http_request::<Vec<u8>>("https://h.tld", SendAccessToken::IfRequired("tok"), vs).map_err(|e| json!({"stage": "re-encode", "error": e.to_string()}))?;
                            if msg(&again) != m1 {
                                return Err(json!({"stage": "compare", "why": "re-encoding gives a different message", "first": m1, "second": msg(&again)}));
                            }
                            Ok(())
                        });
                        match r {
                            Err(_) => fail(&mut f_panic, json!({"request": format!("{req:?}"), "observed": "panic"})),
                            Ok(Err(e)) => {
                                let meta = e["stage"] == "metadata";
                                fail(if meta { &mut f_meta } else { &mut f_req }, json!({"request": format!("{req:?}"), "failure": e}));
                            }
                            Ok(Ok(())) => {}
                        }
                    }
                }
            }
        }
    }
    // ---- e2 requests (GET, optional query) and e3 (newtype body)
    for id in strs {
        for back in std::iter::once(None).chain(strs.iter().map(|s| Some(s.to_string()))) {
            n += 1;
            let req = e2::Request { id: id.to_owned(), back: back.clone() };
            let r = std::panic::catch_unwind(|| -> Result<(), Value> {
                let h = req.clone().try_into_http_request::<Vec<u8>>("https://h.tld", SendAccessToken::None, &[MatrixVersion::V1_1]).map_err(|e| json!({"stage": "encode", "error": e.to_string()}))?;
                let m1 = msg(&h);
                if h.headers().get(http::header::AUTHORIZATION).is_some() || h.method() != http::Method::GET {
                    return Err(json!({"stage": "metadata", "message": m1}));
                }
                let args = route(h.uri().path(), "/_matrix/v1/redirect/:id").ok_or_else(|| json!({"stage": "metadata", "message": m1}))?;
                let b = e2::Request::try_from_http_request(h, &args).map_err(|e| json!({"stage": "decode", "error": e.to_string(), "message": m1}))?;
                if b != req {
                    return Err(json!({"stage": "compare", "message": m1, "decoded": format!("{b:?}")}));
                }
                Ok(())
            });
            match r {
                Err(_) => fail(&mut f_panic, json!({"request": format!("{req:?}"), "observed": "panic"})),
                Ok(Err(e)) => fail(if e["stage"] == "metadata" { &mut f_meta } else { &mut f_req }, json!({"request": format!("{req:?}"), "failure": e})),
                Ok(Ok(())) => {}
            }
        }
    }
    for a in strs {
        for b in strs {
            n += 1;
            let req = e3::Request { things: vec![e3::Thing { a_field: a.to_owned() }, e3::Thing { a_field: b.to_owned() }] };
            let r = std::panic::catch_unwind(|| -> Result<(), Value> {
                let h = req.clone().try_into_http_request::<Vec<u8>>("https://h.tld", SendAccessToken::None, &[MatrixVersion::V1_1]).map_err(|e| json!({"stage": "encode", "error": e.to_string()}))?;
                let m1 = msg(&h);
                let back = e3::Request::try_from_http_request(h, &[] as &[String]).map_err(|e| json!({"stage": "decode", "error": e.to_string(), "message": m1}))?;
                if back != req {
                    return Err(json!({"stage": "compare", "message": m1}));
                }
                Ok(())
            });
            match r {
                Err(_) => fail(&mut f_panic, json!({"request": format!("{req:?}"), "observed": "panic"})),
                Ok(Err(e)) => fail(&mut f_req, json!({"request": format!("{req:?}"), "failure": e})),
                Ok(Ok(())) => {}
            }
        }
    }
    // ---- responses
    for hello in strs {
        for flag in [None, Some(true), Some(false)] {
            n += 1;
            let res = e1::Response { hello: hello.to_owned(), world: "text/plain".to_owned(), optional_flag: flag };
            let r = std::panic::catch_unwind(|| -> Result<(), Value> {
                let h = res.clone().try_into_http_response::<Vec<u8>>().map_err(|e| json!({"stage": "encode", "error": e.to_string()}))?;
                let m1 = rmsg(&h);
                let back = e1::Response::try_from_http_response(h).map_err(|e| json!({"stage": "decode", "error": e.to_string(), "message": m1}))?;
                if back != res {
                    return Err(json!({"stage": "compare", "message": m1, "decoded": format!("{back:?}")}));
                }
                let again = back.try_into_http_response::<Vec<u8>>().map_err(|e| json!({"stage": "re-encode", "error": e.to_string()}))?;
                if rmsg(&again) != m1 {
                    return Err(json!({"stage": "compare", "why": "re-encoding differs", "first": m1, "second": rmsg(&again)}));
                }
                Ok(())
            });
            match r {
                Err(_) => fail(&mut f_panic, json!({"response": format!("{res:?}"), "observed": "panic"})),
                Ok(Err(e)) => fail(&mut f_res, json!({"response": format!("{res:?}"), "failure": e})),
                Ok(Ok(())) => {}
            }
        }
    }
    for loc in std::iter::once(None).chain(strs.iter().filter(|s| header_ok(s) && !s.is_empty()).map(|s| Some(s.to_string()))) {
        n += 1;
        let res = e2::Response { location: loc.clone() };
        let r = std::panic::catch_unwind(|| -> Result<(), Value> {
            let h = res.clone().try_into_http_response::<Vec<u8>>().map_err(|e| json!({"stage": "encode", "error": e.to_string()}))?;
            let m1 = rmsg(&h);
            if h.status() != http::StatusCode::FOUND {
                return Err(json!({"stage": "encode", "why": "status is not the declared 302", "message": m1}));
            }
            let back = e2::Response::try_from_http_response(h).map_err(|e| json!({"stage": "decode", "error": e.to_string(), "message": m1}))?;
            if back != res {
                return Err(json!({"stage": "compare", "message": m1, "decoded": format!("{back:?}")}));
            }
            Ok(())
        });
        match r {
            Err(_) => fail(&mut f_panic, json!({"response": format!("{res:?}"), "observed": "panic"})),
            Ok(Err(e)) => fail(&mut f_res, json!({"response": format!("{res:?}"), "failure": e})),
            Ok(Ok(())) => {}
        }
    }
    for body in [vec![], b"raw \x00\xff bytes".to_vec(), "{\"a\":1}".as_bytes().to_vec()] {
        n += 1;
        let res = e3::Response { file: body.clone() };
        let r = std::panic::catch_unwind(|| -> Result<(), Value> {
            let h = res.clone().try_into_http_response::<Vec<u8>>().map_err(|e| json!({"stage": "encode", "error": e.to_string()}))?;
            let back = e3::Response::try_from_http_response(h).map_err(|e| json!({"stage": "decode", "error": e.to_string()}))?;
            if back != res {
                return Err(json!({"stage": "compare"}));
            }
            Ok(())
        });
        match r {
            Err(_) => fail(&mut f_panic, json!({"response": "raw body", "observed": "panic"})),
            Ok(Err(e)) => fail(&mut f_res, json!({"response": format!("raw body {body:?}"), "failure": e})),
            Ok(Ok(())) => {}
        }
    }
    // ---- a sample of REAL endpoints (C16's quantifier): the decoded request equals the encoded one (compared through Debug, the
    // request types have no PartialEq) and re-encodes to the identical message
    {
        use ruma_common::directory::{Filter, RoomNetwork, RoomTypeFilter};
        let filters: Vec<Filter> = {
            let mut v = vec![];
            for term in [None, Some("".to_owned()), Some("a b&c=d".to_owned()), Some("\u{e9}".to_owned())] {
                for types in [vec![], vec![RoomTypeFilter::Default], vec![RoomTypeFilter::Space], vec![RoomTypeFilter::Default, RoomTypeFilter::Space, RoomTypeFilter::from(Some("org.x"))]] {
                    let mut f = Filter::new();
                    f.generic_search_term = term.clone();
                    f.room_types = types;
                    v.push(f);
                }
            }
            v
        };
        for filter in &filters {
            for limit in [None, Some(10u32)] {
                for since in [None, Some("t/1?x".to_owned())] {
                    for network in [RoomNetwork::Matrix, RoomNetwork::All, RoomNetwork::ThirdParty("irc".to_owned())] {
                        for server in [None, Some("s.org:8448")] {
                            n += 1;
                            let mk_client = || {
                                let mut r = ruma_client_api::directory::get_public_rooms_filtered::v3::Request::new();
                                r.server = server.map(|s| ruma_common::OwnedServerName::try_from(s).unwrap());
                                r.limit = limit.map(Into::into);
                                r.since = since.clone();
                                r.filter = filter.clone();
                                r.room_network = network.clone();
                                r
                            };
                            let mk_fed = || {
                                let mut r = ruma_federation_api::directory::get_public_rooms_filtered::v1::Request::new();
                                r.limit = limit.map(Into::into);
                                r.since = since.clone();
                                r.filter = filter.clone();
                                r.room_network = network.clone();
                                r
                            };
                            let r = std::panic::catch_unwind(std::panic::AssertUnwindSafe(|| -> Result<(), Value> {
                                let want = format!("{:?}", mk_client());
                                let h = mk_client().try_into_http_request::<Vec<u8>>("https://h.tld", SendAccessToken::IfRequired("tok"), &[MatrixVersion::V1_1]).map_err(|e| json!({"stage": "encode", "error": e.to_string()}))?;
                                let m1 = msg(&h);
                                let none: [String; 0] = [];
                                let back = ruma_client_api::directory::get_public_rooms_filtered::v3::Request::try_from_http_request(h, &none).map_err(|e| json!({"stage": "decode", "error": e.to_string(), "message": m1}))?;
                                if format!("{back:?}") != want {
                                    return Err(json!({"endpoint": "client get_public_rooms_filtered", "stage": "compare", "sent": want, "decoded": format!("{back:?}"), "message": m1}));
                                }
                                let again = back.try_into_http_request::<Vec<u8>>("https://h.tld", SendAccessToken::IfRequired("tok"), &[MatrixVersion::V1_1]).map_err(|e| json!({"stage": "re-encode", "error": e.to_string()}))?;
                                if msg(&again) != m1 {
                                    return Err(json!({"endpoint": "client get_public_rooms_filtered", "stage": "compare", "why": "re-encoding differs", "first": m1, "second": msg(&again)}));
                                }
                                let want = format!("{:?}", mk_fed());
                                let h = mk_fed().try_into_http_request::<Vec<u8>>("https://h.tld", SendAccessToken::IfRequired("tok"), &[MatrixVersion::V1_1]).map_err(|e| json!({"stage": "encode", "error": e.to_string()}))?;
                                let m1 = msg(&h);
                                let back = ruma_federation_api::directory::get_public_rooms_filtered::v1::Request::try_from_http_request(h, &none).map_err(|e| json!({"stage": "decode", "error": e.to_string(), "message": m1}))?;
                                if format!("{back:?}") != want {
                                    return Err(json!({"endpoint": "federation get_public_rooms_filtered", "stage": "compare", "sent": want, "decoded": format!("{back:?}"), "message": m1}));
                                }
                                Ok(())
                            }));
                            match r {
                                Err(_) => fail(&mut f_panic, json!({"endpoint": "get_public_rooms_filtered", "observed": "panic"})),
                                Ok(Err(e)) => fail(&mut f_req, json!({"failure": e})),
                                Ok(Ok(())) => {}
                            }
                        }
                    }
                }
            }
        }
    }
    // ---- more real endpoints, one value list each
    {
        use ruma_common::directory::RoomNetwork;
        macro_rules! req_round_trip {
            ($label:expr, $ty:ty, $mk:expr) => {
                req_round_trip!($label, $ty, $mk, Vec::<String>::new())
            };
            ($label:expr, $ty:ty, $mk:expr, $path_args:expr) => {{
                n += 1;
                let r = std::panic::catch_unwind(std::panic::AssertUnwindSafe(|| -> Result<(), Value> {
                    let want = format!("{:?}", $mk);
                    let h = $mk.try_into_http_request::<Vec<u8>>("https://h.tld", SendAccessToken::IfRequired("tok"), &[MatrixVersion::V1_1]).map_err(|e| json!({"stage": "encode", "error": e.to_string()}))?;
                    let m1 = msg(&h);
                    let path_args: Vec<String> = $path_args;
                    let back = <$ty>::try_from_http_request(h, &path_args).map_err(|e| json!({"endpoint": $label, "stage": "decode", "error": e.to_string(), "sent": want, "message": m1}))?;
                    if format!("{back:?}") != want {
                        return Err(json!({"endpoint": $label, "stage": "compare", "sent": want, "decoded": format!("{back:?}"), "message": m1}));
                    }
                    let again = back.try_into_http_request::<Vec<u8>>("https://h.tld", SendAccessToken::IfRequired("tok"), &[MatrixVersion::V1_1]).map_err(|e| json!({"stage": "re-encode", "error": e.to_string()}))?;
                    if msg(&again) != m1 {
                        return Err(json!({"endpoint": $label, "stage": "compare", "why": "re-encoding differs", "first": m1, "second": msg(&again)}));
                    }
                    Ok(())
                }));
                match r {
                    Err(_) => fail(&mut f_panic, json!({"endpoint": $label, "observed": "panic"})),
                    Ok(Err(e)) => fail(&mut f_req, json!({"failure": e})),
                    Ok(Ok(())) => {}
                }
            }};
        }
        // federation GET publicRooms: the network selection travels in the query string
        for network in [RoomNetwork::Matrix, RoomNetwork::All, RoomNetwork::ThirdParty("irc".to_owned())] {
            for limit in [None, Some(10u32)] {
                for since in [None, Some("t/1?x&y".to_owned())] {
                    req_round_trip!("federation get_public_rooms", ruma_federation_api::directory::get_public_rooms::v1::Request, {
                        let mut r = ruma_federation_api::directory::get_public_rooms::v1::Request::new();
                        r.limit = limit.map(Into::into);
                        r.since = since.clone();
                        r.room_network = network.clone();
                        r
                    });
                }
            }
        }
        // push gateway notify: a device with and without tweaks
        {
            use ruma_common::push::Tweak;
            use ruma_push_gateway_api::send_event_notification::v1::{Device, Notification, Request};
            for tweaks in [vec![], vec![Tweak::Highlight(true)], vec![Tweak::Sound("default".to_owned()), Tweak::Highlight(false)]] {
                for ndev in [1usize, 2] {
                    req_round_trip!("push gateway send_event_notification", Request, {
                        let mut d = Device::new("app".to_owned(), "key/1?x".to_owned());
                        d.tweaks = tweaks.clone();
                        Request::new(Notification::new(std::iter::repeat(d).take(ndev).collect()))
                    });
                }
            }
        }
        // client threads / search: requests whose fields have their default value (left out by the encoder)
        {
            use ruma_client_api::threads::get_threads::v1::{IncludeThreads, Request};
            let room = ruma_common::OwnedRoomId::try_from("!r:s.org").unwrap();
            for include in [IncludeThreads::All, IncludeThreads::Participated] {
                for from in [None, Some("t 1&x".to_owned())] {
                    req_round_trip!("client get_threads", Request, {
                        let mut r = Request::new(room.clone());
                        r.include = include.clone();
                        r.from = from.clone();
                        r
                    }, vec![room.to_string()]);
                }
            }
        }
        {
            use ruma_client_api::search::search_events::v3::{Categories, Criteria, Request, ResultCategories, ResultRoomEvents, Response, SearchResult};
            for with_filter in [false, true] {
                req_round_trip!("client search_events", Request, {
                    let mut c = Criteria::new("needle a&b".to_owned());
                    if with_filter {
                        c.filter.limit = Some(5u32.into());
                    }
                    let mut cats = Categories::new();
                    cats.room_events = Some(c);
                    Request::new(cats)
                });
            }
            n += 1;
            let mk = || {
                let mut res = ResultRoomEvents::new();
                res.results = vec![SearchResult::new()];
                let mut cats = ResultCategories::new();
                cats.room_events = res;
                Response::new(cats)
            };
            let r = std::panic::catch_unwind(std::panic::AssertUnwindSafe(|| -> Result<(), Value> {
                let want = format!("{:?}", mk());
                let h = mk().try_into_http_response::<Vec<u8>>().map_err(|e| json!({"stage": "encode", "error": e.to_string()}))?;
                let m1 = format!("{} {}", h.status(), String::from_utf8_lossy(h.body()));
                let back = Response::try_from_http_response(h).map_err(|e| json!({"endpoint": "client search_events", "stage": "decode", "error": e.to_string(), "message": m1}))?;
                if format!("{back:?}") != want {
                    return Err(json!({"endpoint": "client search_events", "stage": "compare", "sent": want, "decoded": format!("{back:?}"), "message": m1}));
                }
                Ok(())
            }));
            match r {
                Err(_) => fail(&mut f_panic, json!({"endpoint": "client search_events", "observed": "panic"})),
                Ok(Err(e)) => fail(&mut f_res, json!({"failure": e})),
                Ok(Ok(())) => {}
            }
        }
        // client authenticated media download: the timeout in milliseconds (default 20 s, left out when it is the default)
        {
            use ruma_client_api::authenticated_media::get_content::v1::Request;
            let server = ruma_common::OwnedServerName::try_from("s.org").unwrap();
            for ms in [20_000u64, 20_500, 20_999, 19_999, 1, 0, 60_000] {
                req_round_trip!("client authenticated_media get_content", Request, {
                    let mut r = Request::new("mediaid".to_owned(), server.clone());
                    r.timeout_ms = std::time::Duration::from_millis(ms);
                    r
                }, vec![server.to_string(), "mediaid".to_owned()]);
            }
        }
        // client error responses: the kind with its own fields survives the wire
        {
            use ruma_client_api::error::{ErrorBody, ErrorKind};
            use ruma_common::api::{EndpointError, OutgoingResponse};
            let kinds: Vec<(&str, Box<dyn Fn() -> ErrorKind>)> = vec![
                ("M_NOT_FOUND", Box::new(|| ErrorKind::NotFound)),
                ("M_UNKNOWN_TOKEN soft_logout", Box::new(|| ErrorKind::UnknownToken { soft_logout: true })),
                ("M_RESOURCE_LIMIT_EXCEEDED", Box::new(|| ErrorKind::ResourceLimitExceeded { admin_contact: "mailto:a@s.org".to_owned() })),
                ("M_INCOMPATIBLE_ROOM_VERSION", Box::new(|| ErrorKind::IncompatibleRoomVersion { room_version: ruma_common::RoomVersionId::V9 })),
                ("M_WRONG_ROOM_KEYS_VERSION 42", Box::new(|| ErrorKind::WrongRoomKeysVersion { current_version: Some("42".to_owned()) })),
                ("M_WRONG_ROOM_KEYS_VERSION none", Box::new(|| ErrorKind::WrongRoomKeysVersion { current_version: None })),
                ("M_BAD_STATUS 502 body", Box::new(|| ErrorKind::BadStatus { status: Some(http::StatusCode::BAD_GATEWAY), body: Some("upstream".to_owned()) })),
                ("M_BAD_STATUS none", Box::new(|| ErrorKind::BadStatus { status: None, body: None })),
            ];
            for (label, mk) in &kinds {
                n += 1;
                let r = std::panic::catch_unwind(std::panic::AssertUnwindSafe(|| -> Result<(), Value> {
                    let err = ErrorBody::Standard { kind: mk(), message: "msg".to_owned() }.into_error(http::StatusCode::BAD_REQUEST);
                    let want = format!("{err:?}");
                    let h = err.try_into_http_response::<Vec<u8>>().map_err(|e| json!({"stage": "encode", "error": e.to_string()}))?;
                    let m1 = format!("{} {}", h.status(), String::from_utf8_lossy(h.body()));
                    let back = ruma_client_api::Error::from_http_response(h);
                    if format!("{back:?}") != want {
                        return Err(json!({"endpoint": "client error response", "kind": label, "stage": "compare", "sent": want, "decoded": format!("{back:?}"), "message": m1}));
                    }
                    Ok(())
                }));
                match r {
                    Err(_) => fail(&mut f_panic, json!({"endpoint": "client error response", "kind": label, "observed": "panic"})),
                    Ok(Err(e)) => fail(&mut f_res, json!({"failure": e})),
                    Ok(Ok(())) => {}
                }
            }
        }
        // client sync: a response whose only update is in one kind of room
        {
            use ruma_client_api::sync::sync_events::v3::{InvitedRoom, JoinedRoom, KnockedRoom, LeftRoom, Response};
            let room = ruma_common::OwnedRoomId::try_from("!r:s.org").unwrap();
            for kind in ["none", "join", "leave", "invite", "knock"] {
                n += 1;
                let mk = || {
                    let mut r = Response::new("batch/1".to_owned());
                    match kind {
                        "join" => { r.rooms.join.insert(room.clone(), JoinedRoom::new()); }
                        "leave" => { r.rooms.leave.insert(room.clone(), LeftRoom::new()); }
                        "invite" => { r.rooms.invite.insert(room.clone(), InvitedRoom::new()); }
                        "knock" => { r.rooms.knock.insert(room.clone(), KnockedRoom::new()); }
                        _ => {}
                    }
                    r
                };
                let r = std::panic::catch_unwind(std::panic::AssertUnwindSafe(|| -> Result<(), Value> {
                    let want = format!("{:?}", mk());
                    let h = mk().try_into_http_response::<Vec<u8>>().map_err(|e| json!({"stage": "encode", "error": e.to_string()}))?;
                    let m1 = format!("{} {:?} {}", h.status(), h.headers(), String::from_utf8_lossy(h.body()));
                    let back = Response::try_from_http_response(h).map_err(|e| json!({"endpoint": "client sync v3", "stage": "decode", "error": e.to_string(), "message": m1}))?;
                    if format!("{back:?}") != want {
                        return Err(json!({"endpoint": "client sync v3", "rooms": kind, "stage": "compare", "sent": want, "decoded": format!("{back:?}"), "message": m1}));
                    }
                    Ok(())
                }));
                match r {
                    Err(_) => fail(&mut f_panic, json!({"endpoint": "client sync v3", "observed": "panic"})),
                    Ok(Err(e)) => fail(&mut f_res, json!({"failure": e})),
                    Ok(Ok(())) => {}
                }
            }
        }
    }
    Report {
        bound: format!("3 synthetic endpoints (path x2, query incl. optional and multi-valued, header, JSON body incl. optional field, newtype body, raw body, status override 302): 11^3 (path, query, body) triples x 3 version sets x 3 optional-field shapes and the other endpoints' value lists; real endpoints: the public-rooms requests (client v3 POST, federation v1 POST and GET), push gateway notify, client get_threads and search_events, client authenticated media get_content, client sync v3 responses, client error responses (8 kinds): {n} round trips"),
        cases: n,
        obligations: vec![
            ("requests_survive_the_http_wire_format_and_reencode_identically", n, f_req),
            ("responses_survive_the_http_wire_format_and_reencode_identically", n, f_res),
            ("method_auth_header_and_path_are_the_ones_the_metadata_prescribes", n, f_meta),
            ("wire_conversions_never_panic", n, f_panic),
        ],
    }
}
