//! C11 bounded stand-in: Matrix URI values -> text -> parse round trip on the real code (url,
//! percent-encoding and form_urlencoded are dependencies outside both verifiers), and parsing of
//! malformed texts without panic.
//!
//! Space: identifiers from a fixed list (reserved, percent and non-ASCII characters in localparts and
//! event ids, localparts that begin with further sigil characters) x {matrix:, matrix.to} x via lists of length 0..3 (with repeats) x action {absent, present};
//! texts: every string over a 9-symbol alphabet of URI fragments up to length 4 appended to both bases.
use serde_json::{json, Value};

use super::Report;
use crate::cases;

fn fail(v: &mut Vec<Value>, x: Value) {
    if v.len() < 50 {
        v.push(x);
    }
}

pub fn run(tier: &str) -> Report {
    let depth = if tier == "thorough" { 5 } else { 4 };
    let rooms = ["!r:b.org", "!r/x:b.org", "!r%41:b.org", "!r?q#f:b.org", "!r\u{e9}:b.org", "!r x:b.org", "!%2F:b.org", "!a+b:b.org", "!!r:b.org", "!$o:b.org", "!#@!$:b.org"];
    let aliases = ["#a:b.org", "#a/b:b.org", "#a%41:b.org", "#a?#:b.org", "#\u{e9}\u{1F600}:b.org", "#a&b=c:b.org", "##rust:b.org", "#@a:b.org", "#!$#:b.org"];
    let users = ["@u:b.org", "@u/v:b.org", "@u%2f:b.org", "@u=+.-_:b.org", "@!bang:b.org", "@@u:b.org", "@#$:b.org"];
    let events = ["$e:b.org", "$acR1l0raoZnm60CBwAVgqbZqoO/mYU81xysh1u7XcJk", "$a%2Fb", "$a?b#c", "$a+b", "$$Rq", "$!x:b.org", "$#@a"];
    let vias: [&[&str]; 5] = [&[], &["a.org"], &["a.org", "b.org"], &["a.org", "a.org"], &["a.org", "b.org", "a.org"]];
    let mut cases_n = 0u64;
    let mut f_rt = vec![];
    let mut f_panic = vec![];
    for scheme in ["matrixto", "matrix"] {
        for id in rooms.iter().chain(aliases.iter()).chain(users.iter()) {
            for ev in std::iter::once(None).chain(events.iter().map(Some)) {
                if id.starts_with('@') && ev.is_some() {
                    continue;
                }
                for via in vias {
                    if !id.starts_with('!') && !via.is_empty() {
                        continue;
                    }
                    for action in ["-", "join"] {
                        if scheme == "matrixto" && action != "-" {
                            continue;
                        }
                        let mut args: Vec<String> = vec![scheme.to_string(), id.to_string(), ev.map(|e| e.to_string()).unwrap_or("-".into()), action.into()];
                        args.extend(via.iter().map(|s| s.to_string()));
                        cases_n += 1;
                        let r = std::panic::catch_unwind(|| cases::run("uri.roundtrip", &args));
                        match r {
                            Ok(Some(v)) => {
                                if v["outcome"] == "err" {
                                    fail(&mut f_rt, json!({"args": args, "observed": v}));
                                }
                            }
                            _ => fail(&mut f_panic, json!({"args": args, "why": "panic while formatting/parsing"})),
                        }
                    }
                }
            }
        }
    }
    // malformed texts
    let frags = ["/", "!a:b", "$e", "#r:b", "%", "%2F", "?", "via=b", "@u:b"];
    let mut texts: Vec<String> = vec![String::new()];
    let mut layer: Vec<String> = vec![String::new()];
    for _ in 0..depth {
        let mut next = vec![];
        for t in &layer {
            for f in frags {
                next.push(format!("{t}{f}"));
            }
        }
        texts.extend(next.iter().cloned());
        layer = next;
    }
    let mut f_reparse = vec![];
    for t in &texts {
        for (base, case) in [("https://matrix.to/#/", "uri.matrixto_parse"), ("matrix:", "uri.matrix_parse"), ("matrix:r/", "uri.matrix_parse"), ("matrix:roomid/", "uri.matrix_parse")] {
            cases_n += 1;
            let text = format!("{base}{t}");
            let args = vec![text.clone()];
            match std::panic::catch_unwind(|| cases::run(case, &args)) {
                Ok(Some(v)) => {
                    // a successfully parsed URI re-formats to text that parses to the same value
                    if v["outcome"] == "ok" {
                        let again = v["detail"].as_str().unwrap().trim_matches('"').to_string();
                        let a2 = vec![again.clone()];
                        match std::panic::catch_unwind(|| cases::run(case, &a2)) {
                            Ok(Some(v2)) if v2["outcome"] == "ok" && v2["detail"] == v["detail"] => {}
                            _ => fail(&mut f_reparse, json!({"text": text, "reformatted": again})),
                        }
                    }
                }
                _ => fail(&mut f_panic, json!({"text": text, "why": "panic while parsing"})),
            }
        }
    }
    // arbitrary text around and inside the scheme / base URL: every prefix of both base URLs, cut at every byte, followed
    // by non-ASCII and ASCII continuations (a multi-byte character straddling any fixed byte offset), in upper case too
    let tails = ["", "é@u:b", "\u{1F980}/#/@u:b", "@u:b", "/", "éé", "\u{e9}\u{1F980}é!r:b/$e"];
    for base in ["https://matrix.to/#/", "matrix:", "HTTPS://MATRIX.TO/#/", "https://matrix.to/#/@u:b"] {
        for cut in 0..=base.len() {
            for tail in tails {
                for pad in ["", "x", "é"] {
                    let text = format!("{}{pad}{tail}", &base[..cut]);
                    for case in ["uri.matrixto_parse", "uri.matrix_parse"] {
                        cases_n += 1;
                        let args = vec![text.clone()];
                        if std::panic::catch_unwind(|| cases::run(case, &args)).is_err() {
                            fail(&mut f_panic, json!({"text": text, "why": "panic while parsing"}));
                        }
                    }
                }
            }
        }
    }
    Report {
        bound: format!("{} identifiers x 2 URI schemes x 5 via lists x action x {} event ids; {} malformed texts (fragments alphabet of 9, length <= 4; thorough tier: <= 5) x 4 bases; every byte-prefix of 4 base URLs x 3 paddings x 7 ASCII / non-ASCII tails", rooms.len() + aliases.len() + users.len(), events.len(), texts.len()),
        cases: cases_n,
        obligations: vec![
            ("format_then_parse_yields_the_same_value", cases_n, f_rt),
            ("parsing_never_panics", cases_n, f_panic),
            ("parsed_uri_reformats_to_text_that_parses_to_the_same_value", cases_n, f_reparse),
        ],
    }
}
