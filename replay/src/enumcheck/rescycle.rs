//! C17 bounded stand-in for "never fails to terminate" on state resolution: `ruma_state_res::resolve` on event sets whose
//! `auth_events` are NOT acyclic. In room versions 1 and 2 the event ID is chosen by the sending server (it is not a hash of
//! the event), so a remote server can make events cite each other, or themselves; `resolve` documents no acyclicity
//! precondition. Any result (a state map or an error) is fine, as long as there is one.
//!
//! A call that does not return cannot be stopped from inside the process (and one variant grows memory without bound), so
//! every case runs in a child process (`replay --deep-html 0 rescycle:<case>`) that the parent kills after 10 seconds.
//!
//! Space: 9 event sets = {two conflicting power-level events citing each other; a power-level event citing itself
//! (unconflicted, conflicted); a cycle of three power-level events; member events citing each other; a topic event citing
//! itself; a power-level cycle that is only in the auth chain of the resolved power levels} + 2 controls without a cycle,
//! x authorization rules V1 and V6.
use std::collections::{HashMap, HashSet};
use std::time::{Duration, Instant};

use ruma_common::{room_version_rules::AuthorizationRules, OwnedEventId};
use ruma_events::StateEventType;
use ruma_state_res::StateMap;
use serde_json::{json, Value};

use super::auth::{pdu_ts, Pdu};
use super::Report;

const CASES: [&str; 9] = [
    "control_two_topics", "control_two_power_levels", "two_power_levels_cite_each_other", "power_levels_cites_itself_unconflicted", "power_levels_cites_itself_conflicted",
    "three_power_levels_in_a_cycle", "member_events_cite_each_other", "topic_cites_itself", "cycle_behind_the_resolved_power_levels",
];

/// (events, state sets as lists of event names)
fn world(case: &str) -> (Vec<Pdu>, Vec<Vec<&'static str>>) {
    let a = "@a:s";
    let ev = |name: &str, ty: &str, sk: &str, content: Value, auth: &[&str], ts: u64| -> Pdu {
        let auth: Vec<String> = auth.iter().map(|x| format!("${x}:s")).collect();
        pdu_ts(&format!("${name}:s"), a, ty, Some(sk), &content, &auth, &auth, "!r:s", ts)
    };
    let pl = |name: &str, auth: &[&str], ts: u64| ev(name, "m.room.power_levels", "", json!({"users": {"@a:s": 100}}), auth, ts);
    let topic = |name: &str, auth: &[&str], ts: u64| ev(name, "m.room.topic", "", json!({"topic": name}), auth, ts);
    let mut evs = vec![ev("create", "m.room.create", "", json!({"creator": a}), &[], 1), ev("join", "m.room.member", a, json!({"membership": "join"}), &["create"], 2)];
    let sets: Vec<Vec<&'static str>> = match case {
        "control_two_topics" => {
            evs.extend([pl("pl", &["create", "join"], 3), topic("t1", &["create", "join", "pl"], 4), topic("t2", &["create", "join", "pl"], 5)]);
            vec![vec!["create", "join", "pl", "t1"], vec!["create", "join", "pl", "t2"]]
        }
        "control_two_power_levels" => {
            evs.extend([pl("pl", &["create", "join"], 3), pl("pla", &["create", "join", "pl"], 4), pl("plb", &["create", "join", "pl"], 5), topic("t1", &["create", "join", "pla"], 6), topic("t2", &["create", "join", "plb"], 7)]);
            vec![vec!["create", "join", "pla", "t1"], vec!["create", "join", "plb", "t2"]]
        }
        "two_power_levels_cite_each_other" => {
            evs.extend([pl("pla", &["create", "join", "plb"], 4), pl("plb", &["create", "join", "pla"], 5), topic("t1", &["create", "join", "pla"], 6), topic("t2", &["create", "join", "plb"], 7)]);
            vec![vec!["create", "join", "pla", "t1"], vec!["create", "join", "plb", "t2"]]
        }
        "power_levels_cites_itself_unconflicted" => {
            evs.extend([pl("pl", &["create", "join", "pl"], 3), topic("t1", &["create", "join", "pl"], 4), topic("t2", &["create", "join", "pl"], 5)]);
            vec![vec!["create", "join", "pl", "t1"], vec!["create", "join", "pl", "t2"]]
        }
        "power_levels_cites_itself_conflicted" => {
            evs.extend([pl("pla", &["create", "join", "pla"], 3), pl("plb", &["create", "join"], 4), topic("t1", &["create", "join", "pla"], 5), topic("t2", &["create", "join", "plb"], 6)]);
            vec![vec!["create", "join", "pla", "t1"], vec!["create", "join", "plb", "t2"]]
        }
        "three_power_levels_in_a_cycle" => {
            evs.extend([pl("pla", &["create", "join", "plc"], 3), pl("plb", &["create", "join", "pla"], 4), pl("plc", &["create", "join", "plb"], 5), topic("t1", &["create", "join", "pla"], 6), topic("t2", &["create", "join", "plc"], 7)]);
            vec![vec!["create", "join", "pla", "t1"], vec!["create", "join", "plb", "t2"], vec!["create", "join", "plc", "t2"]]
        }
        "member_events_cite_each_other" => {
            evs.extend([
                pl("pl", &["create", "join"], 3),
                ev("m1", "m.room.member", "@b:s", json!({"membership": "invite"}), &["create", "join", "pl", "m2"], 4),
                ev("m2", "m.room.member", "@b:s", json!({"membership": "ban"}), &["create", "join", "pl", "m1"], 5),
            ]);
            vec![vec!["create", "join", "pl", "m1"], vec!["create", "join", "pl", "m2"]]
        }
        "topic_cites_itself" => {
            evs.extend([pl("pl", &["create", "join"], 3), topic("t1", &["create", "join", "pl", "t1"], 4), topic("t2", &["create", "join", "pl"], 5)]);
            vec![vec!["create", "join", "pl", "t1"], vec!["create", "join", "pl", "t2"]]
        }
        _ => {
            // the resolved power levels are fine, but their own ancestry runs into a cycle
            evs.extend([pl("plx", &["create", "join", "ply"], 3), pl("ply", &["create", "join", "plx"], 4), pl("pl", &["create", "join", "plx"], 5), topic("t1", &["create", "join", "pl"], 6), topic("t2", &["create", "join", "pl"], 7)]);
            vec![vec!["create", "join", "pl", "t1"], vec!["create", "join", "pl", "t2"]]
        }
    };
    (evs, sets)
}

pub fn child(op: &str) -> bool {
    let (case, rules) = op.split_once('@').unwrap_or((op, "V1"));
    let rules = if rules == "V6" { AuthorizationRules::V6 } else { AuthorizationRules::V1 };
    let (evs, sets) = world(case);
    let store: HashMap<OwnedEventId, Pdu> = evs.into_iter().map(|e| (e.event_id.clone(), e)).collect();
    let id = |n: &str| OwnedEventId::try_from(format!("${n}:s")).unwrap();
    let state_sets: Vec<StateMap<OwnedEventId>> = sets
        .iter()
        .map(|names| {
            names
                .iter()
                .map(|n| {
                    let e = &store[&id(n)];
                    ((StateEventType::from(e.event_type.to_string()), e.state_key.clone().unwrap_or_default()), e.event_id.clone())
                })
                .collect()
        })
        .collect();
    // auth chains: everything reachable through auth_events (the walk itself has a visited set)
    let chains: Vec<HashSet<OwnedEventId>> = sets
        .iter()
        .map(|names| {
            let mut seen = HashSet::new();
            let mut todo: Vec<OwnedEventId> = names.iter().map(|n| id(n)).collect();
            while let Some(x) = todo.pop() {
                if let Some(e) = store.get(&x) {
                    for a in &e.auth_events {
                        if seen.insert(a.clone()) {
                            todo.push(a.clone());
                        }
                    }
                }
            }
            seen
        })
        .collect();
    let r = std::panic::catch_unwind(|| {
        let _ = ruma_state_res::resolve(&rules, state_sets.iter(), chains, |x| store.get(x).cloned()).map(|m| m.len());
    });
    r.is_ok()
}

pub fn run(_tier: &str) -> Report {
    let exe = std::env::current_exe().unwrap();
    let (mut n, mut f) = (0u64, vec![]);
    for case in CASES {
        for rules in ["V1", "V6"] {
            n += 1;
            let mut ch = match std::process::Command::new(&exe).arg("--deep-html").arg("0").arg(format!("rescycle:{case}@{rules}")).stderr(std::process::Stdio::null()).spawn() {
                Ok(c) => c,
                Err(e) => {
                    f.push(json!({"case": case, "rules": rules, "observed": format!("cannot start the child process: {e}")}));
                    continue;
                }
            };
            let start = Instant::now();
            let observed = loop {
                match ch.try_wait() {
                    Ok(Some(st)) if st.success() => break None,
                    Ok(Some(st)) => break Some(format!("child process ended with {st} (panic or abort)")),
                    Ok(None) if start.elapsed() > Duration::from_secs(10) => {
                        let _ = ch.kill();
                        let _ = ch.wait();
                        break Some("resolve() had not returned after 10 s (the child process was killed)".to_owned());
                    }
                    Ok(None) => std::thread::sleep(Duration::from_millis(20)),
                    Err(e) => break Some(format!("wait failed: {e}")),
                }
            };
            if let Some(o) = observed {
                let (evs, sets) = world(case);
                let events: Vec<Value> = evs.iter().map(|e| json!({"event_id": e.event_id, "type": e.event_type.to_string(), "auth_events": e.auth_events})).collect();
                f.push(json!({"case": case, "rules": rules, "observed": o, "events": events, "state_sets": sets}));
            }
        }
    }
    Report {
        bound: "9 event sets (7 with a cycle in auth_events: power-level events citing each other / themselves / in a cycle of three, member events citing each other, a topic citing itself, a cycle behind the resolved power levels; 2 controls) x authorization rules V1 and V6; each resolve() call in a child process killed after 10 s".to_owned(),
        cases: n,
        obligations: vec![("state_resolution_returns_on_cyclic_auth_events", n, f)],
    }
}
