//! Replays inputs against the REAL ruma code (path dependencies on /repo).
//! usage: replay <case> <arg>...   -> prints one line of JSON {"outcome": "ok"|"err"|"panic", "detail": ...}
use std::panic;

mod cases;
mod enumcheck;

fn main() {
    let args: Vec<String> = std::env::args().skip(1).collect();
    if args.is_empty() {
        eprintln!("usage: replay <case> <args...>");
        std::process::exit(2);
    }
    panic::set_hook(Box::new(|_| {}));
    if args[0] == "--deep-html" {
        // child process of the `deep` enumeration: one operation on a document of the given nesting depth, on a 2 MiB stack
        let depth: usize = args[1].parse().unwrap();
        let op = args[2].clone();
        let ok = match op.strip_prefix("rescycle:") {
            Some(case) => enumcheck::rescycle::child(case),
            None => enumcheck::deep::child(depth, &op),
        };
        std::process::exit(if ok { 0 } else { 3 });
    }
    if args[0] == "--enum" {
        panic::set_hook(Box::new(|_| {}));
        let tier = args.get(2).map(|s| s.as_str()).unwrap_or("quick");
        match enumcheck::run(&args[1], tier) {
            Some(v) => println!("{}", v),
            None => {
                eprintln!("unknown enum check");
                std::process::exit(2)
            }
        }
        return;
    }
    if args[0] == "--batch" {
        let text = std::fs::read_to_string(&args[1]).expect("batch file");
        for line in text.lines() {
            if line.trim().is_empty() {
                continue;
            }
            let v: Vec<String> = serde_json::from_str(line).expect("batch line must be a JSON array of strings");
            println!("{}", run_one(v[0].clone(), v[1..].to_vec()));
        }
        return;
    }
    let case = args[0].clone();
    let rest: Vec<String> = args[1..].to_vec();
    println!("{}", run_one(case, rest));
}

fn run_one(case: String, rest: Vec<String>) -> serde_json::Value {
    let res = panic::catch_unwind(move || cases::run(&case, &rest));
    match res {
        Ok(Some(v)) => v,
        Ok(None) => serde_json::json!({"outcome": "unknown-case"}),
        Err(e) => {
            let msg = e
                .downcast_ref::<String>()
                .cloned()
                .or_else(|| e.downcast_ref::<&str>().map(|s| s.to_string()))
                .unwrap_or_default();
            let msg: String = msg.chars().take(300).collect();
            serde_json::json!({"outcome": "panic", "detail": msg})
        }
    }
}
