use serde_json::{json, Value};

/// `@rep:N:x` expands to x repeated N times inside an argument, so boundary-length inputs can be
/// written compactly in known_findings.json / replay files.
pub fn expand(s: &str) -> String {
    let mut out = String::new();
    let mut rest = s;
    while let Some(i) = rest.find("@rep:") {
        out.push_str(&rest[..i]);
        let tail = &rest[i + 5..];
        let c1 = tail.find(':').unwrap();
        let n: usize = tail[..c1].parse().unwrap();
        let ch = tail[c1 + 1..].chars().next().unwrap();
        for _ in 0..n {
            out.push(ch);
        }
        rest = &tail[c1 + 1 + ch.len_utf8()..];
    }
    out.push_str(rest);
    out
}

fn res<T: std::fmt::Debug, E: std::fmt::Debug>(r: Result<T, E>) -> Value {
    match r {
        Ok(v) => json!({"outcome": "ok", "detail": format!("{:?}", v)}),
        Err(e) => json!({"outcome": "err", "detail": format!("{:?}", e)}),
    }
}

pub fn run(case: &str, args: &[String]) -> Option<Value> {
    let a: Vec<String> = args.iter().map(|s| expand(s)).collect();
    use ruma_identifiers_validation as idv;
    Some(match case {
        "idv.server_name" => res(idv::server_name::validate(&a[0])),
        "idv.mxc_uri" => res(idv::mxc_uri::validate(&a[0])),
        "idv.key_id" => res(idv::key_id::validate::<ruma_common::DeviceId>(&a[0])),
        "idv.user_id" => res(idv::user_id::validate(&a[0])),
        "idv.user_id_strict" => res(idv::user_id::validate_strict(&a[0])),
        "idv.event_id" => res(idv::event_id::validate(&a[0])),
        "idv.room_id" => res(idv::room_id::validate(&a[0])),
        "idv.room_alias_id" => res(idv::room_alias_id::validate(&a[0])),
        "idv.room_id_or_alias_id" => res(idv::room_id_or_alias_id::validate(&a[0])),
        "idc.room_version_id" => res(idv::room_version_id::validate(&a[0])),
        "idc.client_secret" => res(idv::client_secret::validate(&a[0])),
        "idc.base64_public_key" => res(idv::base64_public_key::validate(&a[0])),
        "idc.server_signing_key_version" => res(idv::server_signing_key_version::validate(&a[0])),
        "ev.timeline" => match serde_json::from_str::<ruma_events::AnyTimelineEvent>(&a[0]) {
            Ok(e) => json!({"outcome": "ok", "detail": format!("{:?}", e.event_type())}),
            Err(e) => json!({"outcome": "err", "detail": e.to_string()}),
        },
        "ev.sync_state" => match serde_json::from_str::<ruma_events::AnySyncStateEvent>(&a[0]) {
            Ok(e) => json!({"outcome": "ok", "detail": format!("{:?}", e.event_type())}),
            Err(e) => json!({"outcome": "err", "detail": e.to_string()}),
        },
        "ids.mxc_parts" => {
            let m = <&ruma_common::MxcUri>::from(a[0].as_str());
            res(m.parts().map(|(s, m)| (s.as_str().to_owned(), m.to_owned())))
        }
        "ids.key_id_parts" => {
            let k = <&ruma_common::DeviceKeyId>::try_from(a[0].as_str());
            match k {
                Ok(k) => json!({"outcome": "ok", "detail": format!("{:?}|{:?}", k.algorithm(), k.key_name())}),
                Err(e) => json!({"outcome": "err", "detail": format!("{:?}", e)}),
            }
        }
        "rvr.table" => {
            let id = ruma_common::RoomVersionId::try_from(a[0].as_str()).unwrap();
            match id.rules() {
                Some(r) => json!({"outcome": "ok", "detail": format!("{:?}", r)}),
                None => json!({"outcome": "err", "detail": "no rules"}),
            }
        }
        "push.ops" => push_ops(&a[0], &a[1]),
        "uri.roundtrip" => uri_roundtrip(&a),
        "uri.matrixto_parse" => res(ruma_common::MatrixToUri::parse(&a[0]).map(|u| u.to_string())),
        "uri.matrix_parse" => res(ruma_common::MatrixUri::parse(&a[0]).map(|u| u.to_string())),
        _ => return None,
    })
}


/// Runs a sequence of edit operations on a real `Ruleset`.
/// start: "empty" | "default"; ops: JSON array of
///   ["insert", kind, id, after|null, before|null] | ["remove", kind, id] | ["enable", kind, id, bool] | ["actions", kind, id]
/// Returns per-op results and the final order of every kind as "id:enabled:default:nactions".
fn push_ops(start: &str, ops: &str) -> Value {
    use ruma_common::push::*;
    let mut rs = if start == "default" {
        Ruleset::server_default(<&ruma_common::UserId>::try_from("@u:s").unwrap())
    } else {
        Ruleset::new()
    };
    let ops: Vec<Vec<Value>> = serde_json::from_str(ops).unwrap();
    let mut results = vec![];
    let kind_of = |k: &str| RuleKind::from(k);
    for op in ops {
        let name = op[0].as_str().unwrap();
        let kind = op[1].as_str().unwrap();
        let id = op[2].as_str().unwrap();
        let r = match name {
            "insert" => {
                let after = op[3].as_str();
                let before = op[4].as_str();
                let new = match kind {
                    "override" => NewPushRule::Override(NewConditionalPushRule::new(id.to_owned(), vec![], vec![Action::Notify])),
                    "underride" => NewPushRule::Underride(NewConditionalPushRule::new(id.to_owned(), vec![], vec![Action::Notify])),
                    "content" => NewPushRule::Content(NewPatternedPushRule::new(id.to_owned(), "p".to_owned(), vec![Action::Notify])),
                    "room" => match <ruma_common::OwnedRoomId>::try_from(id) {
                        Ok(i) => NewPushRule::Room(NewSimplePushRule::new(i, vec![Action::Notify])),
                        Err(_) => { results.push(json!("skip")); continue; }
                    },
                    _ => match <ruma_common::OwnedUserId>::try_from(id) {
                        Ok(i) => NewPushRule::Sender(NewSimplePushRule::new(i, vec![Action::Notify])),
                        Err(_) => { results.push(json!("skip")); continue; }
                    },
                };
                match rs.insert(new, after, before) { Ok(()) => json!("ok"), Err(e) => json!(format!("err:{:?}", e)) }
            }
            "remove" => match rs.remove(kind_of(kind), id) { Ok(()) => json!("ok"), Err(e) => json!(format!("err:{:?}", e)) },
            "enable" => match rs.set_enabled(kind_of(kind), id, op[3].as_bool().unwrap()) { Ok(()) => json!("ok"), Err(_) => json!("err:NotFound") },
            "actions" => match rs.set_actions(kind_of(kind), id, vec![]) { Ok(()) => json!("ok"), Err(_) => json!("err:NotFound") },
            _ => json!("?"),
        };
        results.push(r);
    }
    let d = |id: &str, e: bool, d: bool, n: usize| format!("{id}:{}:{}:{n}", e as u8, d as u8);
    json!({"outcome": "ok", "detail": {
        "results": results,
        "override": rs.override_.iter().map(|r| d(&r.rule_id, r.enabled, r.default, r.actions.len())).collect::<Vec<_>>(),
        "underride": rs.underride.iter().map(|r| d(&r.rule_id, r.enabled, r.default, r.actions.len())).collect::<Vec<_>>(),
        "content": rs.content.iter().map(|r| d(&r.rule_id, r.enabled, r.default, r.actions.len())).collect::<Vec<_>>(),
        "room": rs.room.iter().map(|r| d(r.rule_id.as_str(), r.enabled, r.default, r.actions.len())).collect::<Vec<_>>(),
        "sender": rs.sender.iter().map(|r| d(r.rule_id.as_str(), r.enabled, r.default, r.actions.len())).collect::<Vec<_>>(),
    }})
}


/// uri.roundtrip <matrixto|matrix> <id> [event_id|-] [action|-] [via...]: format a URI value and parse the text back
fn uri_roundtrip(a: &[String]) -> Value {
    use ruma_common::{MatrixToUri, MatrixUri, OwnedServerName};
    let scheme = a[0].as_str();
    let id = a[1].as_str();
    let ev = a.get(2).map(|s| s.as_str()).filter(|s| *s != "-");
    let action = a.get(3).map(|s| s.as_str()).filter(|s| *s != "-").is_some();
    let via: Vec<OwnedServerName> = match a.iter().skip(4).map(|s| OwnedServerName::try_from(s.as_str())).collect::<Result<_, _>>() {
        Ok(v) => v,
        Err(_) => return json!({"outcome": "skip", "detail": "invalid via"}),
    };
    let ev = match ev {
        Some(e) => match <&ruma_common::EventId>::try_from(e) {
            Ok(e) => Some(e.to_owned()),
            Err(_) => return json!({"outcome": "skip", "detail": "invalid event id"}),
        },
        None => None,
    };
    enum U { To(MatrixToUri), Mx(MatrixUri) }
    let u = if id.starts_with('!') {
        let Ok(i) = <&ruma_common::RoomId>::try_from(id) else { return json!({"outcome": "skip", "detail": "invalid id"}) };
        match (scheme, ev) {
            ("matrixto", Some(e)) => U::To(i.matrix_to_event_uri_via(e, via.clone())),
            ("matrixto", None) => U::To(i.matrix_to_uri_via(via.clone())),
            (_, Some(e)) => U::Mx(i.matrix_event_uri_via(e, via.clone())),
            (_, None) => U::Mx(i.matrix_uri_via(via.clone(), action)),
        }
    } else if id.starts_with('#') {
        let Ok(i) = <&ruma_common::RoomAliasId>::try_from(id) else { return json!({"outcome": "skip", "detail": "invalid id"}) };
        match (scheme, ev) {
            ("matrixto", Some(e)) => U::To(i.matrix_to_event_uri(e)),
            ("matrixto", None) => U::To(i.matrix_to_uri()),
            (_, Some(e)) => U::Mx(i.matrix_event_uri(e)),
            (_, None) => U::Mx(i.matrix_uri(action)),
        }
    } else if id.starts_with('@') {
        let Ok(i) = <&ruma_common::UserId>::try_from(id) else { return json!({"outcome": "skip", "detail": "invalid id"}) };
        match scheme {
            "matrixto" => U::To(i.matrix_to_uri()),
            _ => U::Mx(i.matrix_uri(action)),
        }
    } else {
        return json!({"outcome": "skip", "detail": "unsupported id kind"});
    };
    match u {
        U::To(u) => {
            let text = u.to_string();
            match MatrixToUri::parse(&text) {
                Ok(back) => json!({"outcome": if back == u { "ok" } else { "err" }, "detail": format!("text={text} back={back}")}),
                Err(e) => json!({"outcome": "err", "detail": format!("text={text} parse error {e:?}")}),
            }
        }
        U::Mx(u) => {
            let text = u.to_string();
            match MatrixUri::parse(&text) {
                Ok(back) => json!({"outcome": if back == u { "ok" } else { "err" }, "detail": format!("text={text} back={back}")}),
                Err(e) => json!({"outcome": "err", "detail": format!("text={text} parse error {e:?}")}),
            }
        }
    }
}
