use serde_json::{json, Value};

/// `@rep:N:x` expands to x repeated N times inside an argument, so boundary-length inputs can be
/// written compactly in known_findings.json / replay files.
pub fn expand(s: &str) -> String {
    let mut out = String::new();
    let mut rest = s;
    while let Some(i) = rest.find("@rep:") {
        out.push_str(&rest[..i]);
        let tail = &rest[i + 5..];
        let c1 = tail.find(':').unwrap();
        let n: usize = tail[..c1].parse().unwrap();
        let ch = tail[c1 + 1..].chars().next().unwrap();
        for _ in 0..n {
            out.push(ch);
        }
        rest = &tail[c1 + 1 + ch.len_utf8()..];
    }
    out.push_str(rest);
    out
}

fn res<T: std::fmt::Debug, E: std::fmt::Debug>(r: Result<T, E>) -> Value {
    match r {
        Ok(v) => json!({"outcome": "ok", "detail": format!("{:?}", v)}),
        Err(e) => json!({"outcome": "err", "detail": format!("{:?}", e)}),
    }
}

pub fn run(case: &str, args: &[String]) -> Option<Value> {
    let a: Vec<String> = args.iter().map(|s| expand(s)).collect();
    use ruma_identifiers_validation as idv;
    Some(match case {
        "idv.server_name" => res(idv::server_name::validate(&a[0])),
        "idv.mxc_uri" => res(idv::mxc_uri::validate(&a[0])),
        "idv.key_id" => res(idv::key_id::validate::<ruma_common::DeviceId>(&a[0])),
        "idv.user_id" => res(idv::user_id::validate(&a[0])),
        "idv.user_id_strict" => res(idv::user_id::validate_strict(&a[0])),
        "idv.event_id" => res(idv::event_id::validate(&a[0])),
        "idv.room_id" => res(idv::room_id::validate(&a[0])),
        "idv.room_alias_id" => res(idv::room_alias_id::validate(&a[0])),
        "idv.room_id_or_alias_id" => res(idv::room_id_or_alias_id::validate(&a[0])),
        "ids.mxc_parts" => {
            let m = <&ruma_common::MxcUri>::from(a[0].as_str());
            res(m.parts().map(|(s, m)| (s.as_str().to_owned(), m.to_owned())))
        }
        "ids.key_id_parts" => {
            let k = <&ruma_common::DeviceKeyId>::try_from(a[0].as_str());
            match k {
                Ok(k) => json!({"outcome": "ok", "detail": format!("{:?}|{:?}", k.algorithm(), k.key_name())}),
                Err(e) => json!({"outcome": "err", "detail": format!("{:?}", e)}),
            }
        }
        "rvr.table" => {
            let id = ruma_common::RoomVersionId::try_from(a[0].as_str()).unwrap();
            match id.rules() {
                Some(r) => json!({"outcome": "ok", "detail": format!("{:?}", r)}),
                None => json!({"outcome": "err", "detail": "no rules"}),
            }
        }
        _ => return None,
    })
}
