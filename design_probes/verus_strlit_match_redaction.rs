use vstd::prelude::*;
use vstd::string::*;
verus! {
pub struct RedactionRules { pub keep_origin_membership_prev_state: bool, pub keep_room_power_levels_invite: bool }

pub open spec fn spec_top_always(k: Seq<char>) -> bool {
    k == "event_id"@ || k == "type"@ || k == "room_id"@ || k == "sender"@ || k == "state_key"@ || k == "content"@ || k == "hashes"@ || k == "signatures"@ || k == "depth"@ || k == "prev_events"@ || k == "auth_events"@ || k == "origin_server_ts"@
}
pub open spec fn spec_top_v1(k: Seq<char>) -> bool { k == "origin"@ || k == "membership"@ || k == "prev_state"@ }

pub broadcast axiom fn ax_str_ext(a: &str, b: &str)
    ensures (#[trigger] a@ == #[trigger] b@) ==> a == b;

proof fn lits()
  ensures "event_id"@ != "type"@,
    "event_id"@ != "room_id"@,
    "event_id"@ != "sender"@,
    "event_id"@ != "state_key"@,
    "event_id"@ != "content"@,
    "event_id"@ != "hashes"@,
    "event_id"@ != "signatures"@,
    "event_id"@ != "depth"@,
    "event_id"@ != "prev_events"@,
    "event_id"@ != "auth_events"@,
    "event_id"@ != "origin_server_ts"@,
    "event_id"@ != "origin"@,
    "event_id"@ != "membership"@,
    "event_id"@ != "prev_state"@,
    "type"@ != "room_id"@,
    "type"@ != "sender"@,
    "type"@ != "state_key"@,
    "type"@ != "content"@,
    "type"@ != "hashes"@,
    "type"@ != "signatures"@,
    "type"@ != "depth"@,
    "type"@ != "prev_events"@,
    "type"@ != "auth_events"@,
    "type"@ != "origin_server_ts"@,
    "type"@ != "origin"@,
    "type"@ != "membership"@,
    "type"@ != "prev_state"@,
    "room_id"@ != "sender"@,
    "room_id"@ != "state_key"@,
    "room_id"@ != "content"@,
    "room_id"@ != "hashes"@,
    "room_id"@ != "signatures"@,
    "room_id"@ != "depth"@,
    "room_id"@ != "prev_events"@,
    "room_id"@ != "auth_events"@,
    "room_id"@ != "origin_server_ts"@,
    "room_id"@ != "origin"@,
    "room_id"@ != "membership"@,
    "room_id"@ != "prev_state"@,
    "sender"@ != "state_key"@,
    "sender"@ != "content"@,
    "sender"@ != "hashes"@,
    "sender"@ != "signatures"@,
    "sender"@ != "depth"@,
    "sender"@ != "prev_events"@,
    "sender"@ != "auth_events"@,
    "sender"@ != "origin_server_ts"@,
    "sender"@ != "origin"@,
    "sender"@ != "membership"@,
    "sender"@ != "prev_state"@,
    "state_key"@ != "content"@,
    "state_key"@ != "hashes"@,
    "state_key"@ != "signatures"@,
    "state_key"@ != "depth"@,
    "state_key"@ != "prev_events"@,
    "state_key"@ != "auth_events"@,
    "state_key"@ != "origin_server_ts"@,
    "state_key"@ != "origin"@,
    "state_key"@ != "membership"@,
    "state_key"@ != "prev_state"@,
    "content"@ != "hashes"@,
    "content"@ != "signatures"@,
    "content"@ != "depth"@,
    "content"@ != "prev_events"@,
    "content"@ != "auth_events"@,
    "content"@ != "origin_server_ts"@,
    "content"@ != "origin"@,
    "content"@ != "membership"@,
    "content"@ != "prev_state"@,
    "hashes"@ != "signatures"@,
    "hashes"@ != "depth"@,
    "hashes"@ != "prev_events"@,
    "hashes"@ != "auth_events"@,
    "hashes"@ != "origin_server_ts"@,
    "hashes"@ != "origin"@,
    "hashes"@ != "membership"@,
    "hashes"@ != "prev_state"@,
    "signatures"@ != "depth"@,
    "signatures"@ != "prev_events"@,
    "signatures"@ != "auth_events"@,
    "signatures"@ != "origin_server_ts"@,
    "signatures"@ != "origin"@,
    "signatures"@ != "membership"@,
    "signatures"@ != "prev_state"@,
    "depth"@ != "prev_events"@,
    "depth"@ != "auth_events"@,
    "depth"@ != "origin_server_ts"@,
    "depth"@ != "origin"@,
    "depth"@ != "membership"@,
    "depth"@ != "prev_state"@,
    "prev_events"@ != "auth_events"@,
    "prev_events"@ != "origin_server_ts"@,
    "prev_events"@ != "origin"@,
    "prev_events"@ != "membership"@,
    "prev_events"@ != "prev_state"@,
    "auth_events"@ != "origin_server_ts"@,
    "auth_events"@ != "origin"@,
    "auth_events"@ != "membership"@,
    "auth_events"@ != "prev_state"@,
    "origin_server_ts"@ != "origin"@,
    "origin_server_ts"@ != "membership"@,
    "origin_server_ts"@ != "prev_state"@,
    "origin"@ != "membership"@,
    "origin"@ != "prev_state"@,
    "membership"@ != "prev_state"@
{
    reveal_strlit("event_id");
    reveal_strlit("type");
    reveal_strlit("room_id");
    reveal_strlit("sender");
    reveal_strlit("state_key");
    reveal_strlit("content");
    reveal_strlit("hashes");
    reveal_strlit("signatures");
    reveal_strlit("depth");
    reveal_strlit("prev_events");
    reveal_strlit("auth_events");
    reveal_strlit("origin_server_ts");
    reveal_strlit("origin");
    reveal_strlit("membership");
    reveal_strlit("prev_state");
    assert("event_id"@.len() == 8);
    assert("type"@.len() == 4);
    assert("room_id"@.len() == 7);
    assert("sender"@.len() == 6);
    assert("state_key"@.len() == 9);
    assert("content"@.len() == 7);
    assert("hashes"@.len() == 6);
    assert("signatures"@.len() == 10);
    assert("depth"@.len() == 5);
    assert("prev_events"@.len() == 11);
    assert("auth_events"@.len() == 11);
    assert("origin_server_ts"@.len() == 16);
    assert("origin"@.len() == 6);
    assert("membership"@.len() == 10);
    assert("prev_state"@.len() == 10);
    assert("room_id"@[0] != "content"@[0]);
    assert("sender"@[0] != "hashes"@[0]);
    assert("sender"@[0] != "origin"@[0]);
    assert("hashes"@[0] != "origin"@[0]);
    assert("signatures"@[0] != "membership"@[0]);
    assert("signatures"@[0] != "prev_state"@[0]);
    assert("prev_events"@[0] != "auth_events"@[0]);
    assert("membership"@[0] != "prev_state"@[0]);
}

fn is_event_key_retained(rules: &RedactionRules, key: &str) -> (r: bool)
    ensures r == (spec_top_always(key@) || (rules.keep_origin_membership_prev_state && spec_top_v1(key@)))
{
    broadcast use ax_str_ext;
    proof { lits(); }
    match key {
        "event_id" | "type" | "room_id" | "sender" | "state_key" | "content" | "hashes"
        | "signatures" | "depth" | "prev_events" | "auth_events" | "origin_server_ts" => true,
        "origin" | "membership" | "prev_state" => rules.keep_origin_membership_prev_state,
        _ => false,
    }
}
}
fn main(){}
