#![feature(pattern)]
use vstd::prelude::*;
use std::num::NonZeroU8;
use vstd::string::*;
verus! {

pub enum MxcUriError { WrongSchema, MissingSlash, MediaIdMalformed, ServerNameMalformed }
pub enum Error { InvalidServerName }

pub open spec fn first_idx(s: Seq<u8>, c: u8) -> Option<int> 
  decreases s.len()
{
    if s.len() == 0 { None } else if s[0] == c { Some(0int) } else {
        match first_idx(s.subrange(1, s.len() as int), c) { Some(i) => Some(i + 1), None => None }
    }
}

pub uninterp spec fn str_find_spec<P>(s: &str, p: P) -> Option<usize>;

pub assume_specification<P: core::str::pattern::Pattern> [ str::find::<P> ] (s: &str, p: P) -> (r: Option<usize>)
    ensures r == str_find_spec(s, p);

pub broadcast axiom fn ax_find_char(s: &str, c: char)
    requires (c as u32) < 128,
    ensures
        match #[trigger] str_find_spec::<char>(s, c) {
            Some(i) => i < s.spec_bytes().len() && s.spec_bytes()[i as int] == c as u8 && vstd::utf8::is_char_boundary(s.spec_bytes(), i as int) && vstd::utf8::is_char_boundary(s.spec_bytes(), i as int + 1)
                && forall|j: int| 0 <= j < i ==> s.spec_bytes()[j] != c as u8,
            None => forall|j: int| 0 <= j < s.spec_bytes().len() ==> s.spec_bytes()[j] != c as u8,
        };

#[verifier::external_body]
pub fn server_name_validate(server_name: &str) -> (r: Result<(), Error>)
{ unimplemented!() }

pub fn validate(uri: &str) -> (r: Result<NonZeroU8, MxcUriError>)
{
    broadcast use ax_find_char;
    let index = match uri.find('/') {
        Some(index) => index,
        None => return Err(MxcUriError::MissingSlash),
    };

    assert(str_find_spec::<char>(uri, '/') == Some(index));
    assert(index < uri.spec_bytes().len());
    assert(vstd::utf8::is_char_boundary(uri.spec_bytes(), index as int));
    let server_name = &uri[..index];
    let media_id = &uri[index + 1..];
    if server_name_validate(server_name).is_err() {
        Err(MxcUriError::ServerNameMalformed)
    } else {
        Ok(NonZeroU8::new((index + 6) as u8).unwrap())
    }
}

}
fn main() {}
