use vstd::prelude::*;
use std::ops::Deref;
verus! {

// ---------- prelude (trusted shims) ----------
#[verifier::external_body]
pub struct UserId { inner: str }
#[verifier::external_body]
#[verifier::accept_recursive_types(E)]
pub struct RoomMemberEvent<E: Event>(E);
#[verifier::external_body]
#[verifier::accept_recursive_types(E)]
pub struct RoomCreateEvent<E: Event>(E);
#[verifier::external_body]
#[verifier::accept_recursive_types(E)]
pub struct RoomPowerLevelsEvent<E: Event>(E);
#[verifier::external_body]
pub struct StateEventType { x: u8 }
#[verifier::external_body]
pub struct Int { x: i64 }
impl View for Int { type V = int; uninterp spec fn view(&self) -> int; }

pub struct AuthorizationRules { pub knocking: bool, pub integer_power_levels: bool }

pub enum MembershipState { Ban, Invite, Join, Knock, Leave, Custom }
impl PartialEq for MembershipState {
    #[verifier::external_body]
    fn eq(&self, other: &Self) -> (r: bool) ensures r == (*self == *other) { unimplemented!() }
    #[verifier::external_body]
    fn ne(&self, other: &Self) -> (r: bool) ensures r == (*self != *other) { unimplemented!() }
}

pub enum RoomPowerLevelsIntField { UsersDefault, EventsDefault, StateDefault, Ban, Redact, Kick, Invite }

pub trait Event {
    spec fn spec_sender(&self) -> &UserId;
    fn sender(&self) -> (r: &UserId) ensures r == self.spec_sender();
}

impl<E: Event> RoomMemberEvent<E> {
    pub uninterp spec fn inner(&self) -> &E;
}
impl<E: Event> Deref for RoomMemberEvent<E> {
    type Target = E;
    #[verifier::external_body]
    fn deref(&self) -> (r: &E) ensures r == self.inner() { &self.0 }
}


impl PartialEq for UserId {
    #[verifier::external_body]
    fn eq(&self, other: &Self) -> bool { unimplemented!() }
}
impl PartialOrd for Int {
    #[verifier::external_body]
    fn partial_cmp(&self, other: &Self) -> (r: Option<std::cmp::Ordering>) { unimplemented!() }
    #[verifier::external_body]
    fn ge(&self, other: &Self) -> (r: bool) ensures r == (self@ >= other@) { unimplemented!() }
    #[verifier::external_body]
    fn lt(&self, other: &Self) -> (r: bool) ensures r == (self@ < other@) { unimplemented!() }
}
impl PartialEq for Int {
    #[verifier::external_body]
    fn eq(&self, other: &Self) -> bool { unimplemented!() }
}

pub uninterp spec fn spec_membership<E: Event>(f: spec_fn(&StateEventType, &str) -> Option<E>, u: &UserId) -> Result<MembershipState, String>;
pub uninterp spec fn spec_creator<'a, E: Event>(e: &'a RoomCreateEvent<E>, rules: &AuthorizationRules) -> Result<&'a UserId, String>;

impl<E: Event> RoomCreateEvent<E> {
    #[verifier::external_body]
    pub fn creator(&self, rules: &AuthorizationRules) -> (r: Result<&UserId, String>)
        ensures r == spec_creator(self, rules)
    { unimplemented!() }
}

pub trait FetchStateExt<E: Event> {
    spec fn as_spec(&self) -> spec_fn(&StateEventType, &str) -> Option<E>;
    fn user_membership(&self, user_id: &UserId) -> (r: Result<MembershipState, String>)
        ensures r == spec_membership(self.as_spec(), user_id);
    spec fn spec_pl(&self) -> Option<RoomPowerLevelsEvent<E>>;
    fn room_power_levels_event(&self) -> (r: Option<RoomPowerLevelsEvent<E>>) ensures r == self.spec_pl();
}

impl<E, F> FetchStateExt<E> for F
where
    F: Fn(&StateEventType, &str) -> Option<E>,
    E: Event,
{
    uninterp spec fn as_spec(&self) -> spec_fn(&StateEventType, &str) -> Option<E>;
    uninterp spec fn spec_pl(&self) -> Option<RoomPowerLevelsEvent<E>>;
    #[verifier::external_body]
    fn user_membership(&self, user_id: &UserId) -> (r: Result<MembershipState, String>) { unimplemented!() }
    #[verifier::external_body]
    fn room_power_levels_event(&self) -> Option<RoomPowerLevelsEvent<E>> { unimplemented!() }
}

pub trait RoomPowerLevelsEventOptionExt {
    spec fn spec_upl(&self, user_id: &UserId, creator: &UserId, rules: &AuthorizationRules) -> Result<Int, String>;
    spec fn spec_field(&self, field: RoomPowerLevelsIntField, rules: &AuthorizationRules) -> Result<Int, String>;
    fn user_power_level(&self, user_id: &UserId, creator: &UserId, rules: &AuthorizationRules) -> (r: Result<Int, String>)
        ensures r == self.spec_upl(user_id, creator, rules);
    fn get_as_int_or_default(&self, field: RoomPowerLevelsIntField, rules: &AuthorizationRules) -> (r: Result<Int, String>)
        ensures r == self.spec_field(field, rules);
}
impl<E: Event> RoomPowerLevelsEventOptionExt for Option<RoomPowerLevelsEvent<E>> {
    uninterp spec fn spec_upl(&self, user_id: &UserId, creator: &UserId, rules: &AuthorizationRules) -> Result<Int, String>;
    uninterp spec fn spec_field(&self, field: RoomPowerLevelsIntField, rules: &AuthorizationRules) -> Result<Int, String>;
    #[verifier::external_body]
    fn user_power_level(&self, user_id: &UserId, creator: &UserId, rules: &AuthorizationRules) -> Result<Int, String> { unimplemented!() }
    #[verifier::external_body]
    fn get_as_int_or_default(&self, field: RoomPowerLevelsIntField, rules: &AuthorizationRules) -> Result<Int, String> { unimplemented!() }
}

fn check_room_member_ban<E: Event>(
    room_member_event: &RoomMemberEvent<impl Event>,
    target_user: &UserId,
    rules: &AuthorizationRules,
    room_create_event: RoomCreateEvent<E>,
    fetch_state: impl Fn(&StateEventType, &str) -> Option<E>,
) -> (res: Result<(), String>)
    ensures res.is_ok() <==> {
        &&& spec_membership(fetch_state.as_spec(), room_member_event.inner().spec_sender()) == Ok::<MembershipState,String>(MembershipState::Join)
        &&& spec_creator(&room_create_event, rules) is Ok
        &&& ({ let c = spec_creator(&room_create_event, rules)->Ok_0; let pl = fetch_state.spec_pl();
              &&& pl.spec_upl(room_member_event.inner().spec_sender(), c, rules) is Ok
              &&& pl.spec_field(RoomPowerLevelsIntField::Ban, rules) is Ok
              &&& pl.spec_upl(target_user, c, rules) is Ok
              &&& pl.spec_upl(room_member_event.inner().spec_sender(), c, rules)->Ok_0@ >= pl.spec_field(RoomPowerLevelsIntField::Ban, rules)->Ok_0@
              &&& pl.spec_upl(target_user, c, rules)->Ok_0@ < pl.spec_upl(room_member_event.inner().spec_sender(), c, rules)->Ok_0@ })
    }
{
    let sender_membership = fetch_state.user_membership(room_member_event.sender())?;

    // Since v1, if the sender’s current membership state is not join, reject.
    if sender_membership != MembershipState::Join {
        return Err("cannot ban if sender is not joined".to_owned());
    }

    let creator = room_create_event.creator(rules)?;
    let room_power_levels_event = fetch_state.room_power_levels_event();

    let sender_power_level =
        room_power_levels_event.user_power_level(room_member_event.sender(), &creator, rules)?;
    let ban_power_level =
        room_power_levels_event.get_as_int_or_default(RoomPowerLevelsIntField::Ban, rules)?;
    let target_user_power_level =
        room_power_levels_event.user_power_level(target_user, &creator, rules)?;

    if sender_power_level >= ban_power_level && target_user_power_level < sender_power_level {
        Ok(())
    } else {
        Err("sender does not have enough power to ban target user".to_owned())
    }
}
}
fn main(){}
