use vstd::prelude::*;
use vstd::string::*;
verus! {
fn f(s: &str, i: usize) -> (r: &str)
    requires i <= s.spec_bytes().len(), vstd::utf8::is_char_boundary(s.spec_bytes(), i as int),
    ensures r.spec_bytes() == s.spec_bytes().subrange(0, i as int)
{
    broadcast use vstd::utf8::group_utf8_lib;
    &s[..i]
}
fn f2(s: &str, i: usize) -> (r: &str)
    requires i <= s.spec_bytes().len(), vstd::utf8::is_char_boundary(s.spec_bytes(), i as int),
    ensures r.spec_bytes() == s.spec_bytes().subrange(i as int, s.spec_bytes().len() as int)
{
    broadcast use vstd::utf8::group_utf8_lib;
    &s[i..]
}
}
fn main(){}
