use vstd::prelude::*;
use std::cmp::Ordering;
verus! {
// (b) comparator
#[verifier::external_body]
pub struct Int { x: i64 }
impl View for Int { type V = int; uninterp spec fn view(&self) -> int; }
impl PartialEq for Int { #[verifier::external_body] fn eq(&self, o: &Self) -> (r: bool) ensures r == (self@ == o@) { unimplemented!() } }
impl Eq for Int {}
impl PartialOrd for Int { #[verifier::external_body] fn partial_cmp(&self, o: &Self) -> (r: Option<Ordering>) { unimplemented!() } }
impl Ord for Int {
    #[verifier::external_body]
    fn cmp(&self, o: &Self) -> (r: Ordering)
        ensures (r == Ordering::Less) == (self@ < o@), (r == Ordering::Equal) == (self@ == o@), (r == Ordering::Greater) == (self@ > o@)
    { unimplemented!() }
}
#[verifier::external_body]
fn ord_then(a: Ordering, b: Ordering) -> (r: Ordering)
    ensures r == (if a == Ordering::Equal { b } else { a })
{ a.then(b) }

struct TieBreaker<'a> { power_level: Int, origin_server_ts: Int, event_id: &'a Int }

impl<'a> TieBreaker<'a> {
    fn cmp(&self, other: &Self) -> (r: Ordering)
        ensures (r == Ordering::Less) == (
            self.power_level@ > other.power_level@
            || (self.power_level@ == other.power_level@ && self.origin_server_ts@ < other.origin_server_ts@)
            || (self.power_level@ == other.power_level@ && self.origin_server_ts@ == other.origin_server_ts@ && self.event_id@ < other.event_id@))
    {
        ord_then(ord_then(other.power_level.cmp(&self.power_level), self.origin_server_ts.cmp(&other.origin_server_ts)), self.event_id.cmp(other.event_id))
    }
}

pub open spec fn spec_ws(b: u8) -> bool { b == 0x20 || b == 0x09 || b == 0x0a || b == 0x0c || b == 0x0d }
pub assume_specification [u8::is_ascii_whitespace] (b: &u8) -> (r: bool) ensures r == spec_ws(*b);
// (c) cursor-style byte parser, verbatim from content_disposition.rs
fn skip_ascii_whitespaces(bytes: &[u8], pos: &mut usize)
    requires *old(pos) <= bytes@.len(),
    ensures *old(pos) <= *final(pos) <= bytes@.len(),
{
    while let Some(byte) = bytes.get(*pos)
        invariant *old(pos) <= *pos <= bytes@.len(),
        decreases bytes@.len() - *pos,
    {
        if !byte.is_ascii_whitespace() {
            break;
        }

        assert(*pos < bytes@.len());
        assert(bytes@.len() <= usize::MAX);
        *pos += 1;
    }
}
}
fn main(){}
