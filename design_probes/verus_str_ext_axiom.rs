use vstd::prelude::*;
use vstd::string::*;
verus! {
pub broadcast axiom fn ax_str_ext(a: &str, b: &str)
    ensures (#[trigger] a@ == #[trigger] b@) ==> a == b;
fn t1(key: &str) -> (r: bool) ensures r == (key@ == "a"@) { broadcast use ax_str_ext; match key { "a" => true, _ => false } }
fn t3(key: &str) -> (r: bool) ensures r == (key@ == "a"@ || key@ == "bc"@) { broadcast use ax_str_ext; matches!(key, "a" | "bc") }
}
fn main(){}
