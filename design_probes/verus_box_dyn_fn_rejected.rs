use vstd::prelude::*;
verus! {
pub struct RedactionRules { pub a: bool }
pub struct RedactionError;
type RetainKeyFn = dyn Fn(&RedactionRules, &str) -> Result<bool, RedactionError>;
enum RetainedKeys { All, Some(Box<RetainKeyFn>), None }
impl RetainedKeys {
    fn some<F>(retain_key_fn: F) -> Self
    where F: Fn(&RedactionRules, &str) -> Result<bool, RedactionError> + 'static,
    { Self::Some(Box::new(retain_key_fn)) }
}
fn pick(rules: &RedactionRules) -> RetainedKeys {
    if rules.a { RetainedKeys::All } else { RetainedKeys::some(|_rules, field| Ok(field == "creator")) }
}
}
fn main(){}
