use vstd::prelude::*;
verus! {
pub enum InsertPushRuleError { UnknownRuleId, BeforeHigherThanAfter }

// ---- trusted model of indexmap::IndexSet<T> keyed by rule id ----
#[verifier::external_body]
#[verifier::accept_recursive_types(T)]
pub struct IndexSet<T> { v: Vec<T> }

pub trait RuleKey { spec fn key(&self) -> Seq<char>; }

impl<T: RuleKey> IndexSet<T> {
    pub uninterp spec fn view(&self) -> Seq<T>;
    pub open spec fn wf(&self) -> bool {
        forall|i: int, j: int| 0 <= i < j < self.view().len() ==> self.view()[i].key() != self.view()[j].key()
    }
    pub open spec fn index_of(&self, k: Seq<char>) -> Option<int> {
        if exists|i: int| 0 <= i < self.view().len() && self.view()[i].key() == k {
            Some(choose|i: int| 0 <= i < self.view().len() && self.view()[i].key() == k)
        } else { None }
    }
    #[verifier::external_body]
    pub fn replace_full(&mut self, value: T) -> (r: (usize, Option<T>))
        requires old(self).wf(),
        ensures final(self).wf(),
            match old(self).index_of(value.key()) {
                Some(i) => r.0 == i && r.1 == Some(old(self).view()[i]) && final(self).view() == old(self).view().update(i, value),
                None => r.0 == old(self).view().len() && r.1.is_none() && final(self).view() == old(self).view().push(value),
            }
    { unimplemented!() }
    #[verifier::external_body]
    pub fn get_index_of(&self, k: &str) -> (r: Option<usize>)
        requires self.wf(),
        ensures match r { Some(i) => self.index_of(k@) == Some(i as int), None => self.index_of(k@).is_none() }
    { unimplemented!() }
    #[verifier::external_body]
    pub fn move_index(&mut self, from: usize, to: usize)
        requires from < old(self).view().len(), to < old(self).view().len(),
        ensures final(self).view() == old(self).view().remove(from as int).insert(to as int, old(self).view()[from as int])
    { unimplemented!() }
}

pub fn insert_and_move_rule<T: RuleKey>(
    set: &mut IndexSet<T>,
    rule: T,
    default_position: usize,
    after: Option<&str>,
    before: Option<&str>,
) -> (res: Result<(), InsertPushRuleError>)
    requires old(set).wf(),
{
    let (from, replaced) = set.replace_full(rule);

    let mut to = default_position;

    if let Some(rule_id) = after {
        let idx = set.get_index_of(rule_id).ok_or(InsertPushRuleError::UnknownRuleId)?;
        to = idx + 1;
    }
    if let Some(rule_id) = before {
        let idx = set.get_index_of(rule_id).ok_or(InsertPushRuleError::UnknownRuleId)?;

        if idx < to {
            return Err(InsertPushRuleError::BeforeHigherThanAfter);
        }

        to = idx;
    }

    // Only move the item if it's new or if it was positioned.
    if replaced.is_none() || after.is_some() || before.is_some() {
        set.move_index(from, to);
    }

    Ok(())
}
}
fn main(){}
