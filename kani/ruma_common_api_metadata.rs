// Kani harnesses for ruma-common/src/api/metadata.rs (child module: sees private items).
// Unit api (property C16): which path / error the endpoint metadata prescribes for a set of
// supported versions. Oracle written from the property statement: "the newest stable path some
// supported version offers, otherwise the unstable path, and an error if every supported version
// removed the endpoint".
use super::*;

const ALL: [MatrixVersion; 15] = [
    MatrixVersion::V1_0, MatrixVersion::V1_1, MatrixVersion::V1_2, MatrixVersion::V1_3, MatrixVersion::V1_4, MatrixVersion::V1_5,
    MatrixVersion::V1_6, MatrixVersion::V1_7, MatrixVersion::V1_8, MatrixVersion::V1_9, MatrixVersion::V1_10, MatrixVersion::V1_11,
    MatrixVersion::V1_12, MatrixVersion::V1_13, MatrixVersion::V1_14,
];

fn any_version() -> (MatrixVersion, u8) {
    let i: u8 = kani::any();
    kani::assume(i < 15);
    (ALL[i as usize], i)
}

const SPATHS: [&str; 3] = ["/s0", "/s1", "/s2"];

/// a symbolic well-formed history: 0..=3 stable paths with strictly ascending versions, 0..=2
/// unstable paths, optional deprecated < removed
fn any_history() -> (VersionHistory, [u8; 3], usize, usize, Option<u8>, Option<u8>) {
    let ns: usize = kani::any();
    kani::assume(ns <= 3);
    let nu: usize = kani::any();
    kani::assume(nu <= 2);
    let (v0, i0) = any_version();
    let (v1, i1) = any_version();
    let (v2, i2) = any_version();
    kani::assume(ns < 2 || i0 < i1);
    kani::assume(ns < 3 || i1 < i2);
    let stable_all: &'static [(MatrixVersion, &'static str); 3] = Box::leak(Box::new([(v0, SPATHS[0]), (v1, SPATHS[1]), (v2, SPATHS[2])]));
    let unstable_all: &'static [&'static str; 2] = &["/u0", "/u1"];
    let has_dep: bool = kani::any();
    let has_rem: bool = kani::any();
    let (dv, di) = any_version();
    let (rv, ri) = any_version();
    // documented shape: removed requires deprecated, deprecated requires a stable path and is later than it
    kani::assume(!has_rem || has_dep);
    kani::assume(!has_dep || ns > 0);
    kani::assume(!has_rem || di < ri);
    let last_stable = if ns == 3 { i2 } else if ns == 2 { i1 } else { i0 };
    kani::assume(!has_dep || di > last_stable);
    let h = VersionHistory {
        unstable_paths: &unstable_all[..nu],
        stable_paths: &stable_all[..ns],
        deprecated: if has_dep { Some(dv) } else { None },
        removed: if has_rem { Some(rv) } else { None },
    };
    (h, [i0, i1, i2], ns, nu, if has_dep { Some(di) } else { None }, if has_rem { Some(ri) } else { None })
}

/// symbolic list of 0..=3 supported versions (any order, duplicates allowed)
fn any_versions() -> ([MatrixVersion; 3], [u8; 3], usize) {
    let n: usize = kani::any();
    kani::assume(n <= 3);
    let (a, ia) = any_version();
    let (b, ib) = any_version();
    let (c, ic) = any_version();
    ([a, b, c], [ia, ib, ic], n)
}

//#ob:stable_endpoint_is_newest_offered bounded=history<=3_stable_paths,<=2_unstable;version_list_len<=3
#[kani::proof]
#[kani::unwind(5)]
fn api_stable_endpoint() {
    let (h, si, ns, nu, _dep, _rem) = any_history();
    let (vs, vi, n) = any_versions();
    let got = h.stable_endpoint_for(&vs[..n]);
    let mut stable: Option<usize> = None; // index of the newest stable entry some supported version offers
    let mut s = 0;
    while s < ns {
        let mut k = 0;
        while k < n {
            if vi[k] >= si[s] {
                stable = Some(s);
            }
            k += 1;
        }
        s += 1;
    }
    match (got, stable) {
        (Some(p), Some(s)) => assert!(p.len() == 3 && p.as_bytes()[1] == b's' && p.as_bytes()[2] == b'0' + s as u8),
        (None, None) => {}
        _ => assert!(false),
    }
    // the unstable path is the last one
    match h.unstable() {
        Some(p) => assert!(nu > 0 && p.len() == 3 && p.as_bytes()[1] == b'u' && p.as_bytes()[2] == if nu == 2 { b'1' } else { b'0' }),
        None => assert!(nu == 0),
    }
    // added_in is the first stable version
    match h.added_in() {
        Some(v) => assert!(ns > 0 && v.into_parts().1 == si[0]),
        None => assert!(ns == 0),
    }
}

//#ob:versioning_decision_flags bounded=history<=3_stable_paths;version_list_len<=3
#[kani::proof]
#[kani::unwind(5)]
fn api_versioning_decision() {
    let (h, si, ns, _nu, dep, rem) = any_history();
    let (vs, vi, n) = any_versions();
    let got = h.versioning_decision_for(&vs[..n]);
    let mut all_ge_rem = true;
    let mut any_ge_rem = false;
    let mut all_ge_dep = true;
    let mut any_ge_dep = false;
    let mut any_ge_added = false;
    let mut k = 0;
    while k < n {
        if let Some(r) = rem {
            if vi[k] >= r { any_ge_rem = true } else { all_ge_rem = false }
        }
        if let Some(d) = dep {
            if vi[k] >= d { any_ge_dep = true } else { all_ge_dep = false }
        }
        if ns > 0 && vi[k] >= si[0] {
            any_ge_added = true;
        }
        k += 1;
    }
    if rem.is_some() && all_ge_rem {
        assert!(got == VersioningDecision::Removed);
    } else if any_ge_added {
        let all_deprecated = dep.is_some() && all_ge_dep;
        assert!(got == VersioningDecision::Stable {
            any_deprecated: all_deprecated || (dep.is_some() && any_ge_dep),
            all_deprecated,
            any_removed: rem.is_some() && any_ge_rem,
        });
    } else {
        assert!(got == VersioningDecision::Unstable);
    }
}

//#ob:matrix_version_order_is_numeric
#[kani::proof]
fn api_version_order() {
    let (a, ia) = any_version();
    let (b, ib) = any_version();
    assert!(a.is_superset_of(b) == (ia >= ib));
    assert!((a.const_ord(&b) == core::cmp::Ordering::Less) == (ia < ib));
    assert!((a.const_ord(&b) == core::cmp::Ordering::Equal) == (ia == ib));
    let (maj, min) = a.into_parts();
    assert!(maj == 1 && min == ia);
    assert!(matches!(MatrixVersion::from_parts(maj, min), Ok(x) if x == a));
    assert!(a.is_legacy() == (ia == 0));
}

//#ob:from_parts_total
#[kani::proof]
fn api_from_parts() {
    let maj: u8 = kani::any();
    let min: u8 = kani::any();
    let r = MatrixVersion::from_parts(maj, min);
    assert!(r.is_ok() == (maj == 1 && min <= 14));
}
