// Kani harnesses for ruma-common, include!d into the real crate under cfg(kani).
// Every harness is labelled `//#ob:<obligation>`; `bounded=` marks stand-ins (see tools/kunit.py).


#[allow(unused_imports, dead_code)]
mod rvr {
    //! Unit rvr: the per-room-version rule tables reached through `RoomVersionId::rules()`.
    //! Finite domain (11 stable versions), enumerated completely; expectations are the tables of
    //! properties C03/C04/C05/C08 (Matrix spec, room versions 1-11).
    use crate::room_version_rules::*;
    use crate::RoomVersionId;

    fn ids() -> [RoomVersionId; 11] {
        [
            RoomVersionId::V1, RoomVersionId::V2, RoomVersionId::V3, RoomVersionId::V4, RoomVersionId::V5, RoomVersionId::V6,
            RoomVersionId::V7, RoomVersionId::V8, RoomVersionId::V9, RoomVersionId::V10, RoomVersionId::V11,
        ]
    }

    //#ob:redaction_rules_per_version
    #[kani::proof]
    #[kani::unwind(12)]
    fn rvr_redaction() {
        let ids = ids();
        let mut i = 0;
        while i < 11 {
            let v = i + 1;
            let r = ids[i].rules().unwrap().redaction;
            assert!(r.keep_room_aliases_aliases == (v <= 5));
            assert!(r.keep_room_join_rules_allow == (v >= 8));
            assert!(r.keep_room_member_join_authorised_via_users_server == (v >= 9));
            assert!(r.keep_origin_membership_prev_state == (v <= 10));
            assert!(r.keep_room_create_content == (v >= 11));
            assert!(r.keep_room_redaction_redacts == (v >= 11));
            assert!(r.keep_room_power_levels_invite == (v >= 11));
            assert!(r.keep_room_member_third_party_invite_signed == (v >= 11));
            i += 1;
        }
    }

    //#ob:authorization_rules_per_version
    #[kani::proof]
    #[kani::unwind(12)]
    fn rvr_authorization() {
        let ids = ids();
        let mut i = 0;
        while i < 11 {
            let v = i + 1;
            let a = ids[i].rules().unwrap().authorization;
            assert!(a.special_case_room_redaction == (v <= 2));
            assert!(a.special_case_room_aliases == (v <= 5));
            assert!(a.strict_canonical_json == (v >= 6));
            assert!(a.limit_notifications_power_levels == (v >= 6));
            assert!(a.knocking == (v >= 7));
            assert!(a.restricted_join_rule == (v >= 8));
            assert!(a.knock_restricted_join_rule == (v >= 10));
            assert!(a.integer_power_levels == (v >= 10));
            assert!(a.use_room_create_sender == (v >= 11));
            i += 1;
        }
    }

    //#ob:signatures_rules_per_version
    #[kani::proof]
    #[kani::unwind(12)]
    fn rvr_signatures() {
        let ids = ids();
        let mut i = 0;
        while i < 11 {
            let v = i + 1;
            let s = ids[i].rules().unwrap().signatures;
            assert!(s.check_event_id_server == (v <= 2));
            assert!(s.check_join_authorised_via_users_server == (v >= 8));
            i += 1;
        }
    }

    //#ob:event_id_format_per_version
    #[kani::proof]
    #[kani::unwind(12)]
    fn rvr_event_format() {
        let ids = ids();
        let mut i = 0;
        while i < 11 {
            let v = i + 1;
            let r = ids[i].rules().unwrap();
            let want = if v <= 2 { EventIdFormatVersion::V1 } else if v == 3 { EventIdFormatVersion::V2 } else { EventIdFormatVersion::V3 };
            assert!(r.event_id_format == want);
            assert!(r.state_res == if v == 1 { StateResolutionVersion::V1 } else { StateResolutionVersion::V2 });
            assert!(r.enforce_key_validity == (v >= 5));
            assert!(r.disposition == RoomVersionDisposition::Stable);
            i += 1;
        }
    }
}

#[allow(unused_imports, dead_code)]
mod cjson {
    //! Unit cjson (C01): the number gate of canonical JSON. For every serde_json::Number built from
    //! any i64, u64 or f64, `CanonicalJsonValue::try_from` yields Integer(n) with the same value iff
    //! the number is an integer in [-(2^53-1), 2^53-1]; everything else (fractions, exponents - they
    //! arrive as f64 -, negative zero as f64, out-of-range integers) is rejected with IntConvert,
    //! never altered. js_int::Int::try_from is compiled in, not assumed.
    use crate::{canonical_json::CanonicalJsonError, CanonicalJsonValue};
    use serde_json::{Number, Value as JsonValue};

    const MAX: i64 = 9_007_199_254_740_991; // 2^53 - 1

    fn check(num: Number, expect: Option<i64>) {
        let r = CanonicalJsonValue::try_from(JsonValue::Number(num));
        match (&r, expect) {
            (Ok(CanonicalJsonValue::Integer(i)), Some(v)) => assert!(i64::from(*i) == v),
            (Err(CanonicalJsonError::IntConvert), None) => {}
            _ => assert!(false),
        }
        core::mem::forget(r);
    }

    //#ob:i64_numbers_kept_iff_in_js_int_range
    #[kani::proof]
    #[kani::unwind(2)]
    fn cjson_number_i64() {
        let v: i64 = kani::any();
        check(Number::from(v), if v >= -MAX && v <= MAX { Some(v) } else { None });
    }

    //#ob:u64_numbers_kept_iff_in_js_int_range
    #[kani::proof]
    #[kani::unwind(2)]
    fn cjson_number_u64() {
        let v: u64 = kani::any();
        check(Number::from(v), if v <= MAX as u64 { Some(v as i64) } else { None });
    }

    //#ob:float_numbers_always_rejected
    #[kani::proof]
    #[kani::unwind(2)]
    fn cjson_number_f64() {
        // fractions, exponents, -0.0, 1.0, 1e2 ... : serde_json keeps them as f64; canonical JSON has integers only
        let v: f64 = kani::any();
        if let Some(n) = Number::from_f64(v) {
            check(n, None);
        }
    }
}
