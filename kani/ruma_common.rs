// Kani harnesses for ruma-common, include!d into the real crate under cfg(kani).
// Every harness is labelled `//#ob:<obligation>`; `bounded=` marks stand-ins (see tools/kunit.py).


#[allow(unused_imports, dead_code)]
mod rvr {
    //! Unit rvr: the per-room-version rule tables reached through `RoomVersionId::rules()`.
    //! Finite domain (11 stable versions), enumerated completely; expectations are the tables of
    //! properties C03/C04/C05/C08 (Matrix spec, room versions 1-11).
    use crate::room_version_rules::*;
    use crate::RoomVersionId;

    fn ids() -> [RoomVersionId; 11] {
        [
            RoomVersionId::V1, RoomVersionId::V2, RoomVersionId::V3, RoomVersionId::V4, RoomVersionId::V5, RoomVersionId::V6,
            RoomVersionId::V7, RoomVersionId::V8, RoomVersionId::V9, RoomVersionId::V10, RoomVersionId::V11,
        ]
    }

    //#ob:redaction_rules_per_version
    #[kani::proof]
    #[kani::unwind(12)]
    fn rvr_redaction() {
        let ids = ids();
        let mut i = 0;
        while i < 11 {
            let v = i + 1;
            let r = ids[i].rules().unwrap().redaction;
            assert!(r.keep_room_aliases_aliases == (v <= 5));
            assert!(r.keep_room_join_rules_allow == (v >= 8));
            assert!(r.keep_room_member_join_authorised_via_users_server == (v >= 9));
            assert!(r.keep_origin_membership_prev_state == (v <= 10));
            assert!(r.keep_room_create_content == (v >= 11));
            assert!(r.keep_room_redaction_redacts == (v >= 11));
            assert!(r.keep_room_power_levels_invite == (v >= 11));
            assert!(r.keep_room_member_third_party_invite_signed == (v >= 11));
            i += 1;
        }
    }

    //#ob:authorization_rules_per_version
    #[kani::proof]
    #[kani::unwind(12)]
    fn rvr_authorization() {
        let ids = ids();
        let mut i = 0;
        while i < 11 {
            let v = i + 1;
            let a = ids[i].rules().unwrap().authorization;
            assert!(a.special_case_room_redaction == (v <= 2));
            assert!(a.special_case_room_aliases == (v <= 5));
            assert!(a.strict_canonical_json == (v >= 6));
            assert!(a.limit_notifications_power_levels == (v >= 6));
            assert!(a.knocking == (v >= 7));
            assert!(a.restricted_join_rule == (v >= 8));
            assert!(a.knock_restricted_join_rule == (v >= 10));
            assert!(a.integer_power_levels == (v >= 10));
            assert!(a.use_room_create_sender == (v >= 11));
            i += 1;
        }
    }

    //#ob:signatures_rules_per_version
    #[kani::proof]
    #[kani::unwind(12)]
    fn rvr_signatures() {
        let ids = ids();
        let mut i = 0;
        while i < 11 {
            let v = i + 1;
            let s = ids[i].rules().unwrap().signatures;
            assert!(s.check_event_id_server == (v <= 2));
            assert!(s.check_join_authorised_via_users_server == (v >= 8));
            i += 1;
        }
    }

    //#ob:event_id_format_per_version
    #[kani::proof]
    #[kani::unwind(12)]
    fn rvr_event_format() {
        let ids = ids();
        let mut i = 0;
        while i < 11 {
            let v = i + 1;
            let r = ids[i].rules().unwrap();
            let want = if v <= 2 { EventIdFormatVersion::V1 } else if v == 3 { EventIdFormatVersion::V2 } else { EventIdFormatVersion::V3 };
            assert!(r.event_id_format == want);
            assert!(r.state_res == if v == 1 { StateResolutionVersion::V1 } else { StateResolutionVersion::V2 });
            assert!(r.enforce_key_validity == (v >= 5));
            assert!(r.disposition == RoomVersionDisposition::Stable);
            i += 1;
        }
    }
}
